#!/usr/bin/env python
"""Behavioural equivalence test for property C12 (batch driver isolation / failure reporting).

usage: python equiv_test.py <path-to-patched-root> <path-to-clean-root>

Each tree is loaded in its own subprocess (child mode).  The child
  * builds a deterministic pool of random + hand written (well-formed and malformed) games,
  * classifies every pool game by solving it ALONE with tad.StochasticGame (both pruning modes,
    deterministic iteration budget: the clean solver does not converge on some games),
  * runs conditionalrewards.run_games on several hundred dictionaries of games (subsets, orders,
    failing game first / between / last, aliasing between games, odd names, malformed containers),
  * records repr(result) (total_time masked), exception type+message, repr of the input
    dictionary after the call (side effects), the captured log records and the report file
    written by save_results_to_file,
  * checks the C12 statement itself (every entry == solving the game alone),
  * runs the command line `python conditionalrewards.py -f FILE -s [-l i]` on a few files.
The parent compares the two JSON transcripts record by record.  PASS / exit 0 iff identical.
"""
import json
import os
import re
import subprocess
import sys
import tempfile

SOLVE_BUDGET = 20000      # logging.debug calls allowed per StochasticGame.solve()
CASE_WALL_SECONDS = 30    # wall-clock safety net per case (never expected to trigger)
N_RANDOM_GAMES = 330
N_RANDOM_BATCHES = 260
SEED = 20241012

TIME_RE = re.compile(r"(Total time\s*:\s).*")


# --------------------------------------------------------------------------------------
# child
# --------------------------------------------------------------------------------------
class Budget(BaseException):
    """Deterministic work budget exceeded (not an Exception: run_games must not swallow it)."""


def child(root, workdir, out_path):
    import copy
    import logging
    import random
    import signal
    import types

    root = os.path.abspath(root)
    os.makedirs(os.path.join(workdir, "outputs"), exist_ok=True)
    os.makedirs(os.path.join(workdir, "inputs"), exist_ok=True)
    os.chdir(workdir)
    sys.path.insert(0, root)
    sys.dont_write_bytecode = True
    import tad
    import conditionalrewards as cr
    assert os.path.abspath(tad.__file__).startswith(root), tad.__file__
    assert os.path.abspath(cr.__file__).startswith(root), cr.__file__

    # ---- deterministic budget: count logging.debug calls (the solver emits some per iteration)
    counter = {"n": 0}

    def counting_debug(*args, **kwargs):
        counter["n"] += 1
        if counter["n"] > SOLVE_BUDGET:
            raise Budget("budget")

    logging.debug = counting_debug
    original_solve = tad.StochasticGame.solve

    def budgeted_solve(self):
        counter["n"] = 0
        return original_solve(self)

    tad.StochasticGame.solve = budgeted_solve

    def on_alarm(signum, frame):
        raise Budget("wall clock")

    signal.signal(signal.SIGALRM, on_alarm)

    # ---- log capture
    records = []

    class Capture(logging.Handler):
        def emit(self, record):
            try:
                text = record.getMessage()
            except Exception as exc:  # pragma: no cover
                text = f"<unformattable {exc!r}>"
            records.append(record.levelname + ":" + TIME_RE.sub(r"\1<t>", text))

    root_logger = logging.getLogger()
    root_logger.handlers[:] = [Capture()]
    root_logger.setLevel(logging.INFO)

    rng = random.Random(SEED)
    P1, P2, PR = "Player 1", "Player 2", "Probabilistic"

    # ---------------------------------------------------------------- random games
    def random_probs(k):
        style = rng.random()
        if style < 0.5:
            weights = [rng.randint(1, 6) for _ in range(k)]
            total = sum(weights)
            return [w / total for w in weights]
        if style < 0.75:
            return [1 / k] * k
        if style < 0.9 and k >= 2:
            tiny = rng.choice([1e-9, 1e-4, 0.001])
            rest = (1 - tiny) / (k - 1)
            return [tiny] + [rest] * (k - 1)
        cuts = sorted(rng.random() for _ in range(k - 1))
        pts = [0.0] + cuts + [1.0]
        return [max(b - a, 1e-3) for a, b in zip(pts, pts[1:])]

    def random_game():
        n_sinks = rng.randint(1, 3)
        n_inner = rng.randint(1, 7)
        n = n_inner + n_sinks
        shape = rng.random()          # < .6: players only move forward (cycles only via chance)
        acyclic_players = shape < 0.6
        reward_pool = rng.choice([[0, 1, 2], [0, 1, 1, 2, 5], [0, 0.5, 1.5, 2.25], [1, 1, 1], [0, 3]])
        players, transitions, rewards = [], [], []
        for idx in range(n_inner):
            player = rng.choice([P1, P2, PR, PR])
            k = rng.randint(1, 3)
            if player == PR:
                targets = [rng.randrange(n) for _ in range(k)]
                if all(t <= idx for t in targets):
                    targets[-1] = rng.randrange(idx + 1, n)
                row = [(p, t) for p, t in zip(random_probs(k), targets)]
            else:
                if acyclic_players:
                    targets = [rng.randrange(idx + 1, n) for _ in range(k)]
                else:
                    targets = [rng.randrange(n) for _ in range(k)]
                if rng.random() < 0.25 and k >= 2:
                    targets[1] = targets[0]          # ties between actions
                row = [(f"a{idx}_{j}", t) for j, t in enumerate(targets)]
                if rng.random() < 0.1 and k >= 2:
                    row[1] = (row[0][0], row[1][1])  # duplicate action name
            players.append(player)
            transitions.append(row)
            rewards.append(rng.choice(reward_pool))
        for idx in range(n_inner, n):
            players.append(PR)
            transitions.append([(1, idx)])
            rewards.append(0 if rng.random() < 0.85 else rng.choice([1, 2]))
        sinks = list(range(n_inner, n))
        kind = rng.random()
        if kind < 0.6:
            finals = [sinks[0]]
        elif kind < 0.8:
            finals = sinks[:max(1, len(sinks) - 1)]
        elif kind < 0.9:
            finals = list(sinks)
        else:
            finals = sorted({rng.randrange(n) for _ in range(rng.randint(1, 3))})
        if rng.random() < 0.1:
            finals = list(reversed(finals)) + finals[:1]      # unordered, duplicated finals
        game = {"rewards": rewards, "players": players,
                "transition_list": transitions, "final_states": finals}
        extra = rng.random()
        if extra < 0.08:
            game["prune_states"] = rng.choice([True, False])   # key already present in the file
        if rng.random() < 0.1:
            game["final_states"] = tuple(game["final_states"])
        return game

    def base():
        return {"rewards": [1, 2, 0, 0], "players": [P1, PR, PR, PR],
                "transition_list": [[("a", 1), ("b", 2)], [(0.5, 0), (0.25, 2), (0.25, 3)],
                                    [(1, 2)], [(1, 3)]],
                "final_states": [3]}

    def mutated(**changes):
        game = base()
        for key, value in changes.items():
            if value is KeyError:
                del game[key]
            else:
                game[key] = value
        return game

    def with_row(idx, row):
        game = base()
        game["transition_list"][idx] = row
        return game

    malformed = {
        "short_transitions": mutated(transition_list=[[("a", 1)], [(1, 1)]]),
        "short_rewards": mutated(rewards=[1, 2, 0]),
        "long_rewards": mutated(rewards=[1, 2, 0, 0, 0]),
        "negative_reward": mutated(rewards=[1, -2, 0, 0]),
        "final_too_big": mutated(final_states=[4]),
        "final_negative": mutated(final_states=[-1, 3]),
        "no_finals": mutated(final_states=[]),
        "bad_player": mutated(players=[P1, "Player 3", PR, PR]),
        "lower_player": mutated(players=["player 1", PR, PR, PR]),
        "empty_row": with_row(1, []),
        "row_is_tuple": with_row(1, ((0.5, 0), (0.5, 3))),
        "row_is_none": with_row(2, None),
        "entry_is_list": with_row(1, [[0.5, 0], [0.5, 3]]),
        "entry_len3": with_row(1, [(0.5, 0, 0), (0.5, 3)]),
        "action_not_str": with_row(0, [(1, 1), ("b", 2)]),
        "prob_not_number": with_row(1, [("x", 0), (0.5, 3)]),
        "target_not_int": with_row(1, [(0.5, 0.0), (0.5, 3)]),
        "target_out_of_range": with_row(1, [(0.5, 0), (0.5, 4)]),
        "target_negative": with_row(0, [("a", -1)]),
        "unreachable_goal": mutated(transition_list=[[("a", 2)], [(1, 3)], [(1, 2)], [(1, 3)]]),
        "p2_avoids_goal": mutated(players=[P2, PR, PR, PR]),
        "empty_game": {"rewards": [], "players": [], "transition_list": [], "final_states": [0]},
        "single_final": {"rewards": [0], "players": [PR], "transition_list": [[(1, 0)]], "final_states": [0]},
        "single_dead": {"rewards": [0], "players": [PR], "transition_list": [[(1, 0)]], "final_states": []},
        # not ValueError: these abort the whole run (same way in both trees)
        "missing_key": mutated(final_states=KeyError),
        "extra_key": mutated(comment="hello"),
        "players_none": mutated(players=None),
        "rewards_strings": mutated(rewards=["1", "2", "0", "0"]),
        "transitions_none": mutated(transition_list=None),
        "finals_none": mutated(final_states=None),
        "finals_int": mutated(final_states=3),
        "bool_prune_string": mutated(prune_states="yes"),
    }

    pool = {}
    for i in range(N_RANDOM_GAMES):
        pool[f"r{i}"] = random_game()
    pool.update(malformed)
    # a few repository games as well
    for fname in ("example_games.py", "paper_games.py", "example_17_08.py"):
        try:
            for gname, game in cr.read_dict_from_file(os.path.join(root, "inputs", fname)).items():
                pool[f"repo_{gname}"] = game
        except Exception as exc:
            pool[f"repo_error_{fname}"] = {"error": repr(exc)}

    # ---------------------------------------------------------------- classification (alone)
    FIELDS = ("final_strategies", "reachability_strategies", "rewards", "probabilities",
              "n_iterations_reach", "n_iterations_rew", "prob_min_rew", "rew_min_reach")

    def solve_alone(game, prune):
        try:
            description = copy.deepcopy(game)
            description["prune_states"] = prune
            sgame = tad.StochasticGame(**description)
            n_transitions = sgame.count_transitions()
            n_states = sgame.num_states
        except BaseException as exc:
            return {"status": "crash", "error": f"{type(exc).__name__}: {exc}"}
        signal.alarm(CASE_WALL_SECONDS)
        try:
            values = sgame.solve()
            info = {"status": "ok", "values": dict(zip(FIELDS, values))}
        except ValueError as exc:
            info = {"status": "valueerror", "error": str(exc)}
        except Budget as exc:
            info = {"status": "budget", "error": str(exc)}
        except Exception as exc:
            info = {"status": "crash", "error": f"{type(exc).__name__}: {exc}"}
        finally:
            signal.alarm(0)
        info["n_states"] = n_states
        info["n_transitions"] = n_transitions
        return info

    alone = {}
    for gname, game in pool.items():
        pruned = solve_alone(game, True)
        unpruned = solve_alone(game, False) if pruned["status"] == "ok" else None
        alone[gname] = (pruned, unpruned)

    def batchable(gname):
        pruned, unpruned = alone[gname]
        if pruned["status"] == "valueerror":
            return True
        return pruned["status"] == "ok" and unpruned["status"] in ("ok", "valueerror")

    good = [g for g in pool if alone[g][0]["status"] == "ok" and batchable(g)]
    failing = [g for g in pool if alone[g][0]["status"] == "valueerror"]
    crashing = [g for g in pool if not batchable(g)]

    transcript = []
    transcript.append({"kind": "pool", "games": repr(pool)})
    transcript.append({"kind": "classification",
                       "alone": {g: repr(v) for g, v in alone.items()},
                       "good": len(good), "failing": len(failing), "crashing": len(crashing)})

    # ---------------------------------------------------------------- expected entries
    def expected_entries(name, gname):
        """What C12 says the two entries of pool game `gname` stored under `name` must be."""
        pruned, unpruned = alone[gname]
        blank = {"final_strategies": None, "reachability_strategies": None, "rewards": None,
                 "probabilities": None, "n_iterations_reach": 0, "n_iterations_rew": 0,
                 "prob_min_rew": 0, "rew_min_reach": 0}

        def entry(info, msg, values):
            out = dict(values)
            out.update(n_states=info["n_states"], n_transitions=info["n_transitions"], msg=msg)
            return out

        if pruned["status"] == "ok":
            first = entry(pruned, "Game solved", pruned["values"])
            if unpruned["status"] == "ok":
                second = entry(unpruned, "Game solved", unpruned["values"])
            else:
                second = entry(unpruned, f"Error while solving the game: {unpruned['error']}", blank)
        else:
            first = entry(pruned, f"Error while solving the game: {pruned['error']}", blank)
            second = entry(pruned, "Game not solved", blank)
        return {name: first, name + "_no_prune": second}

    def property_holds(result, naming):
        names = [n for n, _ in naming]
        if len(set(names) | {n + "_no_prune" for n in names}) != 2 * len(names):
            return "skipped (colliding names)"
        expected = {}
        for name, gname in naming:
            expected.update(expected_entries(name, gname))
        if list(result) != list(expected):
            return f"keys {list(result)} != {list(expected)}"
        for key, exp in expected.items():
            got = {k: v for k, v in result[key].items() if k != "total_time"}
            if repr(sorted(got.items())) != repr(sorted(exp.items())):
                return f"entry {key}: {got!r} != {exp!r}"
        return "ok"

    # ---------------------------------------------------------------- running one dictionary
    def masked(result):
        if not isinstance(result, dict):
            return repr(result)
        shown = {}
        for key, entry in result.items():
            if isinstance(entry, dict) and "total_time" in entry:
                entry = dict(entry)
                value = entry["total_time"]
                entry["total_time"] = "<float>" if type(value) is float and value >= 0 else repr(value)
            shown[key] = entry
        return repr(shown)

    report_counter = {"n": 0}

    def run_case(label, games, naming=None, report_name=None):
        del records[:]
        record = {"kind": "case", "label": label}
        try:
            record["input"] = repr(games)
        except Exception as exc:
            record["input"] = f"<unreprable {type(exc).__name__}>"
        signal.alarm(CASE_WALL_SECONDS)
        result = None
        try:
            result = cr.run_games(games)
            record["result"] = masked(result)
        except BaseException as exc:
            record["exception"] = f"{type(exc).__name__}: {exc}"
        finally:
            signal.alarm(0)
        try:
            record["input_after"] = repr(games)
        except Exception as exc:
            record["input_after"] = f"<unreprable {type(exc).__name__}>"
        record["log"] = list(records)
        if isinstance(result, dict):
            if naming is not None:
                record["property"] = property_holds(result, naming)
            report_counter["n"] += 1
            file_name = report_name or f"inputs/case_{report_counter['n']}.py"
            stem = file_name.split("/")[-1].split(".")[0]
            target = os.path.join("outputs", f"{stem}.txt")
            if os.path.exists(target):
                os.remove(target)
            try:
                returned = cr.save_results_to_file(result, file_name)
                with open(target, "rb") as handle:
                    data = handle.read().decode("utf-8", "replace")
                record["report"] = TIME_RE.sub(r"\1<t>", data)
                record["report_returned"] = repr(returned)
                os.remove(target)
            except BaseException as exc:
                record["report_exception"] = f"{type(exc).__name__}: {exc}"
            record["outputs_dir"] = sorted(os.listdir("outputs"))
        transcript.append(record)

    def fresh(gname):
        return copy.deepcopy(pool[gname])

    name_styles = [
        lambda i, g: g,
        lambda i, g: f"game_{i}",
        lambda i, g: f"{i}",
        lambda i, g: "x" * (i + 1),
        lambda i, g: f"g {i}/with.dots",
    ]

    # ---------------------------------------------------------------- random dictionaries
    for b in range(N_RANDOM_BATCHES):
        size = rng.choice([1, 1, 2, 2, 3, 3, 4, 5])
        mode = rng.random()
        picks = []
        for _ in range(size):
            if mode < 0.45:
                source = good
            elif mode < 0.9:
                source = good if rng.random() < 0.6 else failing
            else:
                source = failing
            picks.append(rng.choice(source))
        style = rng.choice(name_styles)
        naming, seen = [], set()
        for i, g in enumerate(picks):
            name = style(i, g)
            if name in seen:
                name = f"{name}#{i}"
            seen.add(name)
            naming.append((name, g))
        games = {name: fresh(g) for name, g in naming}
        run_case(f"random{b}", games, naming)
        if b % 4 == 0 and size > 1:
            # same games, other orders / subsets: entries must not depend on the neighbours
            order = naming[::-1]
            run_case(f"random{b}-reversed", {n: fresh(g) for n, g in order}, order)
            rotated = naming[1:] + naming[:1]
            run_case(f"random{b}-rotated", {n: fresh(g) for n, g in rotated}, rotated)
            subset = naming[::2]
            run_case(f"random{b}-subset", {n: fresh(g) for n, g in subset}, subset)

    # ---------------------------------------------------------------- a failing game first / between / last
    for k, bad in enumerate(failing[:40]):
        a, b2 = rng.choice(good), rng.choice(good)
        for position, order in (("first", [bad, a, b2]), ("between", [a, bad, b2]),
                                ("last", [a, b2, bad]), ("twice", [bad, a, bad, b2])):
            naming = [(f"n{i}_{g}", g) for i, g in enumerate(order)]
            run_case(f"failing-{position}-{k}", {n: fresh(g) for n, g in naming}, naming)

    # every malformed game alone and sandwiched between two solvable ones (crashing ones included)
    for gname in malformed:
        run_case(f"malformed-alone-{gname}", {gname: fresh(gname)},
                 [(gname, gname)] if batchable(gname) else None)
        a, b2 = good[3], good[7]
        naming = [("before", a), (gname, gname), ("after", b2)]
        run_case(f"malformed-between-{gname}", {n: fresh(g) for n, g in naming},
                 naming if batchable(gname) else None)

    # non converging / crashing random games inside a dictionary: same abort in both trees
    for k, gname in enumerate([g for g in crashing if g.startswith("r")][:6]):
        naming = [("ok_first", good[k]), ("hard", gname), ("ok_last", good[k + 1])]
        run_case(f"nonconverging-{k}", {n: fresh(g) for n, g in naming})

    # ---------------------------------------------------------------- aliasing and histories
    g1, g2, g3 = good[0], good[1], good[2]
    shared = fresh(g1)
    run_case("alias-same-object-twice", {"a": shared, "b": shared}, [("a", g1), ("b", g1)])
    shared_bad = fresh(failing[0])
    run_case("alias-same-failing-object", {"a": shared_bad, "ok": fresh(g2), "b": shared_bad},
             [("a", failing[0]), ("ok", g2), ("b", failing[0])])
    first, second = fresh(g1), fresh(g1)
    second["transition_list"] = first["transition_list"]          # rows shared between two games
    second["rewards"] = first["rewards"]
    run_case("alias-shared-lists", {"a": first, "b": second}, [("a", g1), ("b", g1)])
    inner = fresh(g2)
    inner["transition_list"][0] = inner["transition_list"][0]
    inner["final_states"] = inner["final_states"]
    twice = {"a": inner}
    run_case("history-run-1", twice, [("a", g2)])
    run_case("history-run-2-same-dict", twice, [("a", g2)])          # prune_states key left by run 1
    with_flag_true = fresh(g3); with_flag_true["prune_states"] = True
    with_flag_false = fresh(g3); with_flag_false["prune_states"] = False
    run_case("flag-present", {"t": with_flag_true, "f": with_flag_false}, [("t", g3), ("f", g3)])
    many = [(f"m{i}", g) for i, g in enumerate(good[:25] + failing[:10] + good[25:40])]
    run_case("long-file", {n: fresh(g) for n, g in many}, many)
    same_everywhere = [(f"s{i}", good[5]) for i in range(6)]
    run_case("same-game-six-times", {n: fresh(g) for n, g in same_everywhere}, same_everywhere)

    # ---------------------------------------------------------------- names
    run_case("name-collision", {"x": fresh(g1), "x_no_prune": fresh(g2)}, [("x", g1), ("x_no_prune", g2)])
    run_case("name-collision-reversed", {"x_no_prune": fresh(g2), "x": fresh(g1)},
             [("x_no_prune", g2), ("x", g1)])
    run_case("name-collision-failing", {"x": fresh(failing[0]), "x_no_prune": fresh(g2)})
    run_case("name-empty", {"": fresh(g1)}, [("", g1)])
    run_case("name-int", {1: fresh(g1)})
    run_case("name-int-after-good", {"a": fresh(g1), 2: fresh(g2)})
    run_case("name-tuple", {("a", 1): fresh(g1)})
    run_case("name-none", {None: fresh(g1)})
    run_case("name-bytes", {b"raw": fresh(g1)})
    run_case("name-strsubclass", {type("S", (str,), {})("sub"): fresh(g1)})
    run_case("name-unicode-newline", {"jeu\n\u00e9": fresh(g1), "tab\t": fresh(failing[1])},
             [("jeu\n\u00e9", g1), ("tab\t", failing[1])])

    # ---------------------------------------------------------------- containers
    run_case("empty-dict", {}, [])
    run_case("not-a-dict-none", None)
    run_case("not-a-dict-list", [("a", fresh(g1))])
    run_case("not-a-dict-str", "abc")
    run_case("game-none", {"a": None})
    run_case("game-list", {"ok": fresh(g1), "a": [1, 2, 3]})
    run_case("game-str", {"a": "rewards"})
    run_case("game-empty-dict", {"a": {}})
    run_case("game-only-flag", {"a": {"prune_states": True}})
    run_case("game-mappingproxy", {"a": types.MappingProxyType(fresh(g1))})
    import collections
    run_case("outer-ordereddict", collections.OrderedDict([("b", fresh(g2)), ("a", fresh(g1))]),
             [("b", g2), ("a", g1)])
    run_case("inner-ordereddict", {"a": collections.OrderedDict(fresh(g1))}, [("a", g1)])

    class Loud(dict):
        """dict subclass whose deep copy is observable"""
        copies = 0

        def __deepcopy__(self, memo):
            Loud.copies += 1
            return Loud({k: copy.deepcopy(v, memo) for k, v in self.items()})

    run_case("inner-dict-subclass", {"a": Loud(fresh(g1)), "bad": Loud(fresh(failing[0])), "b": Loud(fresh(g2))},
             [("a", g1), ("bad", failing[0]), ("b", g2)])
    transcript.append({"kind": "deepcopies", "count": Loud.copies})

    # ---------------------------------------------------------------- report writer file names
    for k, report_name in enumerate(["plain", "a/b/c.d.e.py", "x.txt", "dir.with.dot/name", "./rel.py",
                                     "inputs/../inputs/up.py", "trailing.", "C:\\win\\style.py"]):
        naming = [("g", good[k]), ("bad", failing[k]), ("h", good[k + 10])]
        run_case(f"report-name-{k}", {n: fresh(g) for n, g in naming}, naming, report_name=report_name)
    # report of hand made result dictionaries
    class Odd:
        """value whose text form is observable and which refuses comparison"""
        def __repr__(self):
            return "<odd>"

        def __eq__(self, other):
            raise ArithmeticError("no comparison")

    partial = {"reachability_strategies": [["a"]], "final_strategies": [["a"]], "total_time": 0.5, "msg": "x"}
    complete = dict(partial, n_states=1, n_transitions=2, n_iterations_reach=3, n_iterations_rew=4,
                    probabilities=[1], prob_min_rew=[2], rewards=[3], rew_min_reach=[4])
    for label, fake in (("missing-key", {"a": {"msg": "x"}}), ("empty", {}), ("not-dict", None),
                        ("partial-entry", {"good": complete, "a": partial, "never": complete}),
                        ("uncomparable", {"good": complete, "a": dict(complete, final_strategies=Odd())}),
                        ("entry-not-dict", {"good": complete, "a": None}),
                        ("odd-names", {1: complete, None: complete, ("t", 2): complete})):
        record = {"kind": "report-direct", "label": label}
        try:
            record["returned"] = repr(cr.save_results_to_file(fake, "inputs/direct.py"))
        except BaseException as exc:
            record["exception"] = f"{type(exc).__name__}: {exc}"
        try:
            with open("outputs/direct.txt") as handle:
                record["file"] = handle.read()
            os.remove("outputs/direct.txt")
        except OSError as exc:
            record["file"] = f"<{type(exc).__name__}>"
        transcript.append(record)

    # ---------------------------------------------------------------- command line
    def write_input(name, text):
        with open(os.path.join("inputs", name), "w") as handle:
            handle.write(text)

    cli_files = []
    for fname in ("example_17_08.py", "example_games.py", "paper_games.py", "manual_1_game_a.py",
                  "robot_1_w2_l2_r6_rb10_lb5_tb10_lt0.py", "robot_1_w1_l2_r6_rb10_lb5_tb10_lt0.py"):
        with open(os.path.join(root, "inputs", fname)) as handle:
            write_input(fname, handle.read())
        cli_files.append(fname)
    mixed = [("first", good[11]), ("broken", "negative_reward"), ("nosolution", "unreachable_goal"),
             ("middle", good[12]), ("empty_row", "empty_row"), ("last", good[13])]
    write_input("mixed.py", repr({n: pool[g] for n, g in mixed}))
    write_input("only_failing.py", repr({"bad": pool["no_finals"]}))
    write_input("not_a_dict.py", "[1, 2, 3]")
    write_input("empty_dict.py", "{}")
    write_input("crash.py", repr({"ok": pool[good[0]], "boom": pool["extra_key"]}))
    cli_files += ["mixed.py", "only_failing.py", "not_a_dict.py", "empty_dict.py", "crash.py"]
    script = os.path.join(root, "conditionalrewards.py")
    env = dict(os.environ, PYTHONDONTWRITEBYTECODE="1")
    for k, fname in enumerate(cli_files):
        options = [["-s"], ["-s", "-l", "i"], ["--save_results", "--log_level", "INFO"], []][k % 4]
        if fname == "mixed.py":
            options = ["-s", "-l", "i"]
        command = [sys.executable, script, "-f", f"inputs/{fname}"] + options
        record = {"kind": "cli", "file": fname, "options": options}
        try:
            done = subprocess.run(command, capture_output=True, text=True, timeout=60, env=env)
            record["returncode"] = done.returncode
            record["stdout"] = TIME_RE.sub(r"\1<t>", done.stdout)
            stderr = TIME_RE.sub(r"\1<t>", done.stderr)
            if done.returncode != 0:      # traceback: paths / line numbers differ between trees
                stderr = stderr.strip().splitlines()[-1:] if stderr.strip() else []
            record["stderr"] = stderr
        except subprocess.TimeoutExpired:
            record["returncode"] = "timeout"
        target = os.path.join("outputs", fname.split(".")[0] + ".txt")
        if os.path.exists(target):
            with open(target) as handle:
                record["report"] = TIME_RE.sub(r"\1<t>", handle.read())
            os.remove(target)
        else:
            record["report"] = None
        if fname == "mixed.py" and record.get("report"):
            expected = {}
            for n, g in mixed:
                expected.update(expected_entries(n, g))
            lines = record["report"].splitlines()
            shown = [l.split(": ", 1)[1] for l in lines if l.startswith("Message")]
            record["property"] = "ok" if shown == [e["msg"] for e in expected.values()] else f"messages {shown}"
            rewards_shown = [l.split(": ", 1)[1] for l in lines if l.startswith("Rewards     ")]
            if rewards_shown != [repr(e["rewards"]) for e in expected.values()]:
                record["property"] = f"rewards {rewards_shown}"
        transcript.append(record)

    with open(out_path, "w") as handle:
        json.dump(transcript, handle)


# --------------------------------------------------------------------------------------
# parent
# --------------------------------------------------------------------------------------
def describe(record):
    return f"{record.get('kind')}:{record.get('label', record.get('file', ''))}"


def main():
    if len(sys.argv) == 5 and sys.argv[1] == "--child":
        child(sys.argv[2], sys.argv[3], sys.argv[4])
        return 0
    if len(sys.argv) != 3:
        print(__doc__)
        return 2
    patched, clean = (os.path.abspath(p) for p in sys.argv[1:3])
    with tempfile.TemporaryDirectory(prefix="equiv_c12_") as tmp:
        procs = []
        for tag, root in (("patched", patched), ("clean", clean)):
            workdir = os.path.join(tmp, tag)
            os.makedirs(workdir)
            out_path = os.path.join(tmp, f"{tag}.json")
            env = dict(os.environ, PYTHONDONTWRITEBYTECODE="1", PYTHONHASHSEED="0")
            proc = subprocess.Popen([sys.executable, os.path.abspath(__file__), "--child", root, workdir, out_path],
                                    env=env, stdout=subprocess.PIPE, stderr=subprocess.STDOUT, text=True)
            procs.append((tag, proc, out_path))
        transcripts = {}
        failed = False
        for tag, proc, out_path in procs:
            try:
                output, _ = proc.communicate(timeout=600)
            except subprocess.TimeoutExpired:
                proc.kill()
                output, _ = proc.communicate()
                print(f"{tag}: child timed out")
                failed = True
            if proc.returncode != 0:
                print(f"{tag}: child exited with {proc.returncode}\n{output[-3000:]}")
                failed = True
                continue
            with open(out_path) as handle:
                transcripts[tag] = json.load(handle)
        if failed:
            print("FAIL")
            return 1

    a, b = transcripts["patched"], transcripts["clean"]
    differences = 0
    if len(a) != len(b):
        print(f"different number of records: {len(a)} vs {len(b)}")
        differences += 1
    for left, right in zip(a, b):
        if left != right:
            differences += 1
            if differences <= 8:
                print(f"DIFFERENCE in {describe(left)}")
                for key in sorted(set(left) | set(right)):
                    if left.get(key) != right.get(key):
                        print(f"  [{key}] patched: {str(left.get(key))[:700]}")
                        print(f"  [{key}] clean  : {str(right.get(key))[:700]}")
    violations = 0
    for tag, transcript in transcripts.items():
        for record in transcript:
            verdict = record.get("property")
            if verdict is not None and verdict != "ok" and not verdict.startswith("skipped"):
                violations += 1
                if violations <= 5:
                    print(f"C12 VIOLATED in {tag} tree, {describe(record)}: {verdict[:600]}")
    cases = [r for r in a if r["kind"] == "case"]
    checked = sum(1 for r in cases if r.get("property") == "ok")
    raised = sum(1 for r in cases if "exception" in r)
    summary = next(r for r in a if r["kind"] == "classification")
    print(f"pool: {summary['good']} solvable, {summary['failing']} failing with ValueError, "
          f"{summary['crashing']} non-converging/crashing; "
          f"{len(cases)} dictionaries run ({checked} checked against solo solves, {raised} aborted identically), "
          f"{sum(1 for r in a if r['kind'] == 'cli')} command line runs")
    if differences or violations:
        print(f"FAIL ({differences} differing records, {violations} property violations)")
        return 1
    print("PASS")
    return 0


if __name__ == "__main__":
    sys.exit(main())
