#!/usr/bin/env python
"""
Equivalence test for C01 / variant 1 (stale-state sweep in the reachability value iteration,
set difference in reverse_dfs).

usage: python equiv_test.py <path-to-patched-root> <path-to-clean-root>

The two trees are loaded in two separate subprocesses (same module names). Each worker runs the
same deterministic battery and prints one JSON document {case id: observation}. The parent
compares the two documents key by key; observations are repr() strings, so 0 / 0.0 / 1 / 1.0 and
every last bit of a float are told apart. PASS (exit 0) when there is no difference and the
property sanity checks computed inside the workers hold, FAIL (exit 1) otherwise.
"""
import io
import json
import os
import random
import signal
import subprocess
import sys
import time

P1, P2, PR = "Player 1", "Player 2", "Probabilistic"
TIMEOUT = "TIMEOUT"
SOLVE_TIMEOUT = 6.0


class SolveTimeout(Exception):
    pass


def _on_alarm(*_):
    raise SolveTimeout()


# --------------------------------------------------------------------------------------------- #
# random well-formed games
# --------------------------------------------------------------------------------------------- #

def random_probabilities(rng, k, style, acyclic=False):
    if k == 1:
        return [rng.choice([1, 1.0])]
    if style == "dyadic":
        # exact binary fractions: ties between different states are real ties
        weights = [rng.choice([1, 1, 2, 4]) for _ in range(k)]
        total = sum(weights)
        return [w / total for w in weights]
    if style == "tiny":
        eps = rng.choice([1e-9, 1e-6, 1e-3]) if acyclic else rng.choice([1e-2, 1e-3])
        rest = [rng.random() + 0.01 for _ in range(k - 1)]
        total = sum(rest)
        return [eps] + [(1 - eps) * r / total for r in rest]
    weights = [rng.random() + 0.01 for _ in range(k)]
    total = sum(weights)
    return [w / total for w in weights]


def random_game(rng, n, shape):
    """
        shape: 'random' | 'acyclic' | 'players_only' | 'chain' | 'prob_cycles' | 'traps'
    """
    players = []
    for idx in range(n):
        if shape == "players_only":
            players.append(rng.choice([P1, P2]))
        elif shape == "prob_cycles":
            players.append(rng.choice([PR, PR, PR, P1, P2]))
        else:
            players.append(rng.choice([P1, P2, PR]))

    n_final = rng.choice([1, 1, 1, 2, 3]) if n > 3 else 1
    finals = rng.sample(range(n), n_final)
    if rng.random() < 0.15:
        finals = finals + [finals[0]]          # a repeated final state is still well formed
    absorbing_finals = rng.random() < 0.6

    # dead states: absorbing sinks that are not final
    n_dead = rng.choice([0, 1, 1, 2, 3]) if n > 4 else rng.choice([0, 1])
    dead = [s for s in rng.sample(range(n), min(n_dead, n)) if s not in finals]

    # A tiny probability inside a cycle means millions of sweeps at HEAD as well: the really tiny
    # ones only go to acyclic games, moderately small ones to small cyclic games.
    style = rng.choice(["dyadic", "dyadic", "float", "tiny"])
    if style == "tiny" and n > 40 and shape != "acyclic":
        style = "float"
    transitions = []
    for idx in range(n):
        if idx in dead or (idx in finals and absorbing_finals):
            if players[idx] == PR:
                transitions.append([(rng.choice([1, 1.0]), idx)])
            else:
                transitions.append([("stay", idx)])
            continue
        if shape == "acyclic":
            candidates = list(range(idx + 1, n)) or [idx]
        elif shape == "chain":
            candidates = [min(idx + 1, n - 1), min(idx + 2, n - 1), rng.randrange(n)]
        elif shape == "traps":
            # lots of edges into the dead states and back edges
            candidates = list(range(n)) + dead * 3 + [idx]
        else:
            candidates = list(range(n))
        k = rng.choice([1, 1, 2, 2, 3, 4])
        targets = [rng.choice(candidates) for _ in range(k)]
        if players[idx] == PR:
            probs = random_probabilities(rng, k, style, shape == "acyclic")
            transitions.append([(p, t) for p, t in zip(probs, targets)])
        else:
            transitions.append([("a%d" % j, t) for j, t in enumerate(targets)])
    # The total rewards phase of solve() only terminates when no cycle carries a reward, and the
    # property is about the reachability phase: rewards only on states that are on no cycle.
    if shape == "acyclic":
        rewards = [0 if any(t == idx for _, t in transitions[idx])
                   else rng.choice([0, 1, 2, 3, 0.5]) for idx in range(n)]
    else:
        rewards = [0] * n
    return {"rewards": rewards, "players": players,
            "transition_list": transitions, "final_states": finals}


def boundary_games():
    games = {}
    # 3 states, everything final but one
    games["b_three"] = {"rewards": [0, 0, 0], "players": [P1, PR, PR],
                        "transition_list": [[("a", 1), ("b", 2)], [(1, 1)], [(1, 2)]],
                        "final_states": [1]}
    # initial state final
    games["b_init_final"] = {"rewards": [0, 0, 0], "players": [PR, P2, P1],
                             "transition_list": [[(0.5, 1), (0.5, 2)], [("a", 0), ("b", 2)],
                                                 [("a", 2)]],
                             "final_states": [0]}
    # player-only end component 0 <-> 1 that player 1 can leave towards the final state
    games["b_end_component_p1"] = {"rewards": [0, 0, 0, 0], "players": [P1, P1, PR, PR],
                                   "transition_list": [[("a", 1)], [("a", 0), ("b", 2)],
                                                       [(1, 2)], [(1, 3)]],
                                   "final_states": [2]}
    # player 2 end component: player 2 keeps the play inside for ever -> value 0
    games["b_end_component_p2"] = {"rewards": [0, 0, 0, 0], "players": [P2, P2, PR, PR],
                                   "transition_list": [[("a", 1)], [("a", 0), ("b", 2)],
                                                       [(1, 2)], [(1, 3)]],
                                   "final_states": [2]}
    # self loop that needs convergence: x = 0.9 x + 0.1
    games["b_self_loop"] = {"rewards": [1, 0, 0], "players": [PR, PR, PR],
                            "transition_list": [[(0.9, 0), (0.1, 1)], [(1, 1)], [(1, 2)]],
                            "final_states": [1]}
    # self loop + leak to a dead state, a player 2 node on top reading int 0 then 0.0
    games["b_type_travel"] = {"rewards": [0, 0, 0, 0, 0], "players": [P2, P2, PR, PR, PR],
                              "transition_list": [[("a", 1), ("b", 3)], [("a", 2), ("b", 3)],
                                                  [(0.5, 4), (0.5, 2)], [(1, 3)], [(1, 4)]],
                              "final_states": [3]}
    # non absorbing final state whose successors are dead
    games["b_final_not_absorbing"] = {"rewards": [0, 0, 0], "players": [PR, P1, PR],
                                      "transition_list": [[(0.5, 1), (0.5, 2)], [("a", 2)],
                                                          [(1, 2)]],
                                      "final_states": [1]}
    # long backward chain: the value travels one state per sweep against the sweep order
    n = 60
    games["b_back_chain"] = {"rewards": [0] * n, "players": [PR] * n,
                             "transition_list": [[(1, 0)]] + [[(0.5, i - 1), (0.5, i)]
                                                              for i in range(1, n)],
                             "final_states": [0]}
    # long forward chain, final at the end
    games["b_fwd_chain"] = {"rewards": [0] * n, "players": [P1, P2] * (n // 2),
                            "transition_list": [[("a", i + 1), ("b", i)] for i in range(n - 1)]
                            + [[("a", n - 1)]],
                            "final_states": [n - 1]}
    # two finals, tie for player 1, duplicated transitions to the same successor
    games["b_ties"] = {"rewards": [0, 1, 0, 0], "players": [P1, PR, PR, PR],
                       "transition_list": [[("a", 1), ("b", 2), ("c", 1)],
                                           [(0.25, 3), (0.25, 3), (0.5, 1)],
                                           [(1, 2)], [(1, 3)]],
                       "final_states": [3, 2]}
    # a 0-probability edge is the only way to the final state
    games["b_zero_prob_edge"] = {"rewards": [0, 0, 0], "players": [PR, PR, PR],
                                 "transition_list": [[(0, 1), (1, 2)], [(1, 1)], [(1, 2)]],
                                 "final_states": [1]}
    return games


def all_games():
    games = dict(boundary_games())
    rng = random.Random(20260104)
    shapes = ["random", "acyclic", "players_only", "chain", "prob_cycles", "traps"]
    for k in range(420):
        shape = shapes[k % len(shapes)]
        if k < 60:
            n = rng.randint(3, 6)
        elif k < 330:
            n = rng.randint(5, 40)
        else:
            n = rng.randint(60, 300)
        games["r%03d_%s_%d" % (k, shape, n)] = random_game(rng, n, shape)
    return games


# --------------------------------------------------------------------------------------------- #
# worker: runs inside one tree
# --------------------------------------------------------------------------------------------- #

def reference_values(game, sweeps_threshold=1e-13, max_sweeps=20000):
    """
        Independent plain Gauss-Seidel iteration from below over ALL non final states in
        ascending order, continued far beyond the solver's stopping point. The solver's sequence
        is a prefix of this one (dead states stay 0), so by monotonicity reported <= reference.
    """
    players, trans = game["players"], game["transition_list"]
    finals = set(game["final_states"])
    n = len(players)
    val = [1.0 if s in finals else 0.0 for s in range(n)]
    for _ in range(max_sweeps):
        delta = 0.0
        for s in range(n):
            if s in finals:
                continue
            if players[s] == P1:
                new = max([0.0] + [val[t] for _, t in trans[s]])
            elif players[s] == P2:
                new = min([1.0] + [val[t] for _, t in trans[s]])
            else:
                new = 0.0
                for p, t in trans[s]:
                    new += val[t] * p
            delta = max(delta, abs(new - val[s]))
            val[s] = new
        if delta <= sweeps_threshold:
            break
    return val


def can_reach_final(game):
    trans = game["transition_list"]
    finals = set(game["final_states"])
    n = len(trans)
    pred = [[] for _ in range(n)]
    for s in range(n):
        for _, t in trans[s]:
            pred[t].append(s)
    seen = set(finals)
    stack = list(finals)
    while stack:
        t = stack.pop()
        for s in pred[t]:
            if s not in seen:
                seen.add(s)
                stack.append(s)
    return seen


_T0 = time.time()


def _progress(msg):
    sys.stderr.write("[worker %6.1fs] %s\n" % (time.time() - _T0, msg))
    sys.stderr.flush()


def worker(root):
    import copy
    import logging
    os.chdir(root)
    sys.path.insert(0, root)
    sys.dont_write_bytecode = True
    import tad
    import reverse_dfs as rdfs
    import conditionalrewards as cr
    assert os.path.dirname(os.path.abspath(tad.__file__)) == os.path.abspath(root)
    assert os.path.dirname(os.path.abspath(rdfs.__file__)) == os.path.abspath(root)

    out = {}
    sanity_failures = []
    games = all_games()
    signal.signal(signal.SIGALRM, _on_alarm)

    for name, game in games.items():
        # A. the public entry point, both pruning modes
        per_mode = {}
        for prune in (True, False):
            # A1: solve() step by step up to the pruning (always terminates)
            g = copy.deepcopy(game)
            sg = tad.StochasticGame(prune_states=prune, **g)
            try:
                sg.check_game()
                state_list = sg.init_states()
                solver = tad.Solver(threshold=10**(-6), state_list=state_list)
                strategies, n_it = solver.solve_reachability(
                    sg.transition_list, sg.final_states, sg.prune_states)
                probabilities = [state.reach_probability for state in state_list]
                solver.prune_reachability(strategies)
                if prune:
                    solver.prune_stochastich_game()
                out["A1/%s/prune=%s" % (name, prune)] = repr((
                    n_it, strategies, probabilities, [s.next_states for s in state_list]))
            except ValueError as e:
                out["A1/%s/prune=%s" % (name, prune)] = "ValueError: %s" % e
                # the probabilities are still there for the sanity checks below
                probabilities = [state.reach_probability for state in state_list]
            per_mode[prune] = probabilities
            assert g == game, "the solver altered its input"

            # A2: solve() itself. Its total rewards phase (not the subject here) does not
            # terminate on some cyclic games, at HEAD as well: bounded by an alarm, and a case
            # that times out in either tree is skipped by the parent.
            g = copy.deepcopy(game)
            signal.setitimer(signal.ITIMER_REAL, SOLVE_TIMEOUT)
            try:
                res = tad.StochasticGame(prune_states=prune, **g).solve()
                signal.setitimer(signal.ITIMER_REAL, 0)
                out["A2/%s/prune=%s" % (name, prune)] = repr(res)
                if repr(res[3]) != repr(probabilities):
                    sanity_failures.append("%s: solve() and the stepwise run disagree" % name)
            except ValueError as e:
                out["A2/%s/prune=%s" % (name, prune)] = "ValueError: %s" % e
            except SolveTimeout:
                out["A2/%s/prune=%s" % (name, prune)] = TIMEOUT
            finally:
                signal.setitimer(signal.ITIMER_REAL, 0)

        # property sanity on what this tree reports (no pruning: always solvable)
        if True:
            probs = per_mode[False]
            finals = set(game["final_states"])
            alive = can_reach_final(game)
            ref = reference_values(game)
            for s, p in enumerate(probs):
                if s in finals and not (p == 1):
                    sanity_failures.append("%s: final %d reports %r" % (name, s, p))
                if s not in alive and not (p == 0):
                    sanity_failures.append("%s: dead %d reports %r" % (name, s, p))
                if p > ref[s] + 1e-12:
                    sanity_failures.append("%s: state %d reports %r > reference %r"
                                           % (name, s, p, ref[s]))
                if s in alive and s not in finals and ref[s] - p > 1e-2:
                    # loose: only catches gross non-convergence (identity with HEAD is the
                    # real check)
                    sanity_failures.append("%s: state %d reports %r, reference %r"
                                           % (name, s, p, ref[s]))
            if repr(per_mode[True]) != repr(probs):
                sanity_failures.append("%s: pruning changes the probabilities" % name)

        # B. the solver object with several thresholds
        for threshold in (1e-2, 1e-6, 1e-9):
            g = copy.deepcopy(game)
            sg = tad.StochasticGame(prune_states=False, **g)
            sg.check_game()
            state_list = sg.init_states()
            solver = tad.Solver(threshold=threshold, state_list=state_list)
            strategies, n_it = solver.solve_reachability(
                sg.transition_list, sg.final_states, False)
            out["B/%s/t=%g" % (name, threshold)] = repr((
                n_it, strategies, [s.reach_probability for s in state_list],
                [s.expected_reach_min_rewards for s in state_list]))

        # reverse_dfs itself
        out["R/%s" % name] = repr(rdfs.reverse_dfs(game["transition_list"], game["final_states"]))

    _progress("A/B/R done")
    # C. value_iteration_reachability called directly with unusual sweep lists
    rng = random.Random(77)
    names = sorted(games)
    for name in names[::3]:
        game = games[name]
        n = len(game["players"])
        base = rdfs.reverse_dfs(game["transition_list"], game["final_states"])
        sweeps = {
            "reversed": list(reversed(base)),
            "shuffled": rng.sample(base, len(base)),
            "duplicates": base + base[: max(1, len(base) // 2)],
            "all_states": list(range(n)),
            "subset": base[::2],
            "empty": [],
        }
        for label, sweep in sweeps.items():
            sg = tad.StochasticGame(prune_states=False, **copy.deepcopy(game))
            state_list = sg.init_states()
            solver = tad.Solver(state_list=state_list)
            try:
                n_it = solver.value_iteration_reachability(list(sweep), False)
                out["C/%s/%s" % (name, label)] = repr(
                    (n_it, [s.reach_probability for s in state_list]))
            except Exception as e:  # same exception expected in both trees
                out["C/%s/%s" % (name, label)] = "%s: %s" % (type(e).__name__, e)

    _progress("C done")
    # D. the debug trace of the iteration (one line per state and sweep) is unchanged
    root_logger = logging.getLogger()
    stream = io.StringIO()
    handler = logging.StreamHandler(stream)
    handler.setFormatter(logging.Formatter("%(levelname)s %(message)s"))
    old_level = root_logger.level
    for other in list(root_logger.handlers):
        root_logger.removeHandler(other)
    root_logger.addHandler(handler)
    root_logger.setLevel(logging.DEBUG)
    try:
        for name in names[::12]:
            stream.seek(0)
            stream.truncate()
            # only the reachability phase: the total rewards phase may not terminate (see A2)
            sg = tad.StochasticGame(prune_states=True, **copy.deepcopy(games[name]))
            try:
                tad.Solver(state_list=sg.init_states()).solve_reachability(
                    sg.transition_list, sg.final_states, True)
            except ValueError as e:
                stream.write("ValueError %s" % e)
            out["D/%s" % name] = stream.getvalue()
    finally:
        root_logger.removeHandler(handler)
        root_logger.setLevel(old_level)

    _progress("D done")
    # E. the driver on committed input files (boards up to 4002 states)
    files = sorted(f for f in os.listdir("inputs") if f.endswith(".py"))
    selected = [f for f in files if os.path.getsize(os.path.join("inputs", f)) < 70000]
    selected += ["robot_47_w20_l10_r6_rb10_lb10_tb10_lt30_force_down.py",
                 "robot_47_w40_l10_r6_rb10_lb10_tb10_lt30.py"]
    logging.disable(logging.CRITICAL)
    for f in selected:
        games_dict = cr.read_dict_from_file(os.path.join("inputs", f))
        # E1: the reachability phase alone (always terminates), both pruning modes
        for gname, game in games_dict.items():
            for prune in (True, False):
                g = copy.deepcopy(game)
                g.pop("prune_states", None)
                sg = tad.StochasticGame(prune_states=prune, **g)
                try:
                    sg.check_game()
                    state_list = sg.init_states()
                    solver = tad.Solver(threshold=10**(-6), state_list=state_list)
                    strategies, n_it = solver.solve_reachability(
                        sg.transition_list, sg.final_states, prune)
                    out["E1/%s/%s/prune=%s" % (f, gname, prune)] = repr(
                        (n_it, strategies, [s.reach_probability for s in state_list]))
                except ValueError as e:
                    out["E1/%s/%s/prune=%s" % (f, gname, prune)] = repr(
                        ("ValueError: %s" % e, [s.reach_probability for s in state_list]))
        # E2: the driver itself; the total rewards phase of robot_41_w10 does not terminate in a
        # reasonable time at HEAD, any other file that would not is skipped through the alarm.
        if f.startswith("robot_41_w10"):
            continue
        signal.setitimer(signal.ITIMER_REAL, 180)
        try:
            results = cr.run_games(games_dict)
            signal.setitimer(signal.ITIMER_REAL, 0)
            for gname, res in results.items():
                res = dict(res)
                res.pop("total_time")
                out["E2/%s/%s" % (f, gname)] = repr(sorted(res.items()))
        except SolveTimeout:
            out["E2/%s" % f] = TIMEOUT
        finally:
            signal.setitimer(signal.ITIMER_REAL, 0)
    logging.disable(logging.NOTSET)

    _progress("E done")
    out["__sanity__"] = sanity_failures
    sys.stdout.write(json.dumps(out))


# --------------------------------------------------------------------------------------------- #
# parent
# --------------------------------------------------------------------------------------------- #

def main():
    if len(sys.argv) == 3 and sys.argv[1] == "--worker":
        worker(os.path.abspath(sys.argv[2]))
        return 0
    if len(sys.argv) != 3:
        print(__doc__)
        return 2
    patched, clean = os.path.abspath(sys.argv[1]), os.path.abspath(sys.argv[2])
    env = dict(os.environ, PYTHONDONTWRITEBYTECODE="1", PYTHONHASHSEED="0")
    procs = [subprocess.Popen([sys.executable, os.path.abspath(__file__), "--worker", root],
                              stdout=subprocess.PIPE, stderr=subprocess.PIPE, env=env,
                              cwd=root)
             for root in (patched, clean)]
    docs = []
    for proc, root in zip(procs, (patched, clean)):
        stdout, stderr = proc.communicate()
        if proc.returncode != 0:
            print("FAIL: worker for %s crashed:\n%s" % (root, stderr.decode()[-3000:]))
            return 1
        docs.append(json.loads(stdout.decode()))
    got, want = docs
    problems = []
    skipped = []
    for key in sorted(set(got) | set(want)):
        if key == "__sanity__":
            continue
        if TIMEOUT in (got.get(key), want.get(key)):
            skipped.append(key)
            continue
        if got.get(key) != want.get(key):
            problems.append("difference at %s\n   patched: %.400s\n   clean  : %.400s"
                            % (key, got.get(key), want.get(key)))
    for label, doc in (("patched", got), ("clean", want)):
        for failure in doc["__sanity__"]:
            problems.append("property sanity (%s tree): %s" % (label, failure))
    print("%d observations compared, %d full solve() runs skipped (total rewards phase timed out)"
          % (len(want) - 1 - len(skipped), len(skipped)))
    if problems:
        for p in problems[:25]:
            print(p)
        print("FAIL (%d problems)" % len(problems))
        return 1
    print("PASS")
    return 0


if __name__ == "__main__":
    sys.exit(main())
