#!/usr/bin/env python
"""Differential test for property C05 (final strategies are reward-optimal among the
reachability-optimal actions).

usage: python equiv.py <clean_repo_dir> <patched_repo_dir>

Both trees are loaded in their own subprocess (module names collide).  Every subprocess
runs the SAME deterministic set of inputs and prints one line `<case id>\t<repr>` per
observation; the parent compares the two streams line by line.

Inputs
  A. random well-formed games (Player 1 / Player 2 / Probabilistic, cycles, parallel
     edges, duplicate action names, several final states, traps, reward ties, ties within
     the numerical tolerance), both pruning modes: StochasticGame.solve() result, the
     input description afterwards, the digest of all log messages;
  B. the same games stepped through the Solver by hand (several thresholds): transition
     lists after prune_reachability / prune_stochastich_game, strategies, all node values;
  C. malformed games: exception type + message of solve();
  D. direct calls of PlayerOne.get_best_strategies_total_rewards,
     PlayerTwo.get_worst_strategies_total_rewards, PlayerOne.prune_paths_reachability,
     Solver.prune_reachability, Solver._get_total_rewards_strategies on hand-made nodes with
     boundary values (0, -0.0, negative, nan, inf, rounding boundaries, Fractions, bools);
  E. conditionalrewards.run_games on random batches and on the small shipped input files,
     and the report file written by save_results_to_file byte for byte (total_time, the
     only wall-clock value, is fixed before writing).

Games that do not stop are cut deterministically by an iteration budget (the budget is
counted on the "iteration i" debug messages, which are identical in both trees); "both
exceed the budget" counts as same.  A wall-clock alarm protects against anything else.
"""
import hashlib
import os
import subprocess
import sys
import tempfile

N_GAMES = 1100
N_MALFORMED = 500
N_DIRECT = 2500
N_BATCHES = 40
ITERATION_BUDGET = 400
SMALL_INPUTS = [
    "example_17_08.py", "example_games.py", "paper_games.py", "manual_1_game_a.py",
    "manual_arrow_bottom.py", "robot_1_w1_l2_r6_rb10_lb5_tb10_lt0.py",
    "robot_1_w2_l1_r6_rb10_lb5_tb10_lt0.py", "robot_1_w2_l2_r6_rb10_lb5_tb10_lt0.py",
    "robot_999132423_w3_l3_r6_rb1_lb2_tb10_lt30.py",
    "robot_999132423_w3_l3_r6_rb1_lb2_tb10_lt30_force_down.py",
]


# --------------------------------------------------------------------------- worker ----

def worker(repo_dir):
    import copy
    import logging as real_logging
    import random
    import signal
    import types
    from fractions import Fraction

    repo_dir = os.path.abspath(repo_dir)
    sys.path.insert(0, repo_dir)
    workdir = tempfile.mkdtemp(prefix="equiv_F05_")
    os.makedirs(os.path.join(workdir, "outputs"))
    os.chdir(workdir)
    import tad
    import conditionalrewards as cr
    assert os.path.dirname(os.path.abspath(tad.__file__)) == repo_dir

    def wall_clock(*_):
        raise SystemExit("wall clock limit reached")
    signal.signal(signal.SIGALRM, wall_clock)
    signal.alarm(115)

    class Budget(BaseException):
        pass

    class LogProxy:
        """Stands in for the logging module inside tad / conditionalrewards."""
        DEBUG = real_logging.DEBUG
        INFO = real_logging.INFO

        def __init__(self):
            self.reset(False)

        def reset(self, debug_level):
            self.iterations = 0
            self.digest = hashlib.sha256()
            self.level = real_logging.DEBUG if debug_level else real_logging.WARNING

        def _record(self, kind, msg):
            msg = str(msg)
            if msg.startswith("Total time"):
                return
            self.digest.update((kind + msg + "\n").encode())

        def debug(self, msg, *args):
            self._record("D", msg)
            if str(msg).startswith("iteration "):
                self.iterations += 1
                if self.iterations > ITERATION_BUDGET:
                    raise Budget()

        def info(self, msg, *args):
            self._record("I", msg)

        def error(self, msg, *args):
            self._record("E", msg)

        def warning(self, msg, *args):
            self._record("W", msg)

        def getLogger(self, *args):
            proxy = self
            return types.SimpleNamespace(getEffectiveLevel=lambda: proxy.level)

        def __getattr__(self, name):
            return getattr(real_logging, name)

    log = LogProxy()
    tad.logging = log
    cr.logging = log

    out = sys.stdout

    def emit(case, value):
        out.write("%s\t%s\n" % (case, value))

    def guarded(fn):
        try:
            return "OK " + repr(fn())
        except Budget:
            return "BUDGET"
        except Exception as e:  # type and message are part of the behaviour
            return "EXC %s: %s" % (type(e).__name__, e)

    P1, P2, PR = tad.PLAYER_1, tad.PLAYER_2, tad.PROBABILISTIC
    ACTIONS = ["a", "b", "c", "d", "e", " "]

    # ------------------------------------------------------------------ generators ----
    def gen_game(rng, style):
        n = rng.randint(1, 9)
        n_final = rng.randint(1, min(3, n))
        finals = rng.sample(range(n), n_final)
        traps = set()
        if style != "wild":
            for i in range(n):
                if i not in finals and i != 0 and rng.random() < 0.2:
                    traps.add(i)
        terminal = set(finals) | traps
        if style == "acyclic":
            reward_pool = [0, 1, 1, 2, 2, 3]
        elif style == "tolerance":
            reward_pool = [0, 1, 1 + 1e-7, 1 + 4e-7, 1 + 6e-7, 2, 2 - 3e-7, 0.5, 0.5000004]
        elif style == "wild":  # mostly free cycles: keep many of them convergent
            reward_pool = [0, 0, 0, 0, 0, 0, 0, 1, 2, 0.5]
        else:
            reward_pool = [0, 1, 2, 3, 4, 0.5, 1 / 3, 5 / 3, 2.5]
        players, transitions, rewards = [], [], []
        for i in range(n):
            kind = rng.choice([P1, P1, P2, P2, PR])
            if style != "wild" and i in terminal:
                kind = rng.choice([P1, P2, PR])
                players.append(kind)
                rewards.append(0)
                transitions.append([(1, i)] if kind == PR else [(rng.choice(ACTIONS), i)])
                continue
            players.append(kind)
            rewards.append(rng.choice(reward_pool))
            k = rng.randint(1, 4)
            forward = [j for j in range(n) if (j > i and j not in terminal) or j in terminal]
            if style == "wild" or not forward:
                targets = [rng.randrange(n) for _ in range(k)]
            elif style == "acyclic" or kind != PR:
                targets = [rng.choice(forward) for _ in range(k)]
            else:  # stopping cycles: back edges only out of probabilistic states
                targets = [rng.choice(forward)] + [
                    rng.randrange(n) if rng.random() < 0.5 else rng.choice(forward)
                    for _ in range(k - 1)]
                rng.shuffle(targets)
            if kind == PR:
                weights = [rng.randint(1, 4) for _ in targets]
                if style == "wild" and rng.random() < 0.15:
                    weights[rng.randrange(len(weights))] = 0
                total = sum(weights) or 1
                transitions.append([(w / total, t) for w, t in zip(weights, targets)])
            else:
                if rng.random() < 0.1:
                    names = [rng.choice(ACTIONS) for _ in targets]
                else:
                    names = rng.sample(ACTIONS, len(targets))
                transitions.append(list(zip(names, targets)))
        return {"rewards": rewards, "players": players,
                "transition_list": transitions, "final_states": finals}

    def style_for(k):
        return ["acyclic", "stopping", "stopping", "tolerance", "wild"][k % 5]

    def mutate(rng, game):
        g = copy.deepcopy(game)
        n = len(g["players"])
        i = rng.randrange(n)
        m = rng.randrange(22)
        if m == 0:
            g["transition_list"].append([("a", 0)])
        elif m == 1:
            g["transition_list"].pop()
        elif m == 2:
            g["rewards"].append(1)
        elif m == 3:
            g["rewards"].pop()
        elif m == 4:
            g["rewards"][i] = -1
        elif m == 5:
            g["rewards"][i] = -1e-9
        elif m == 6:
            g["final_states"].append(n)
        elif m == 7:
            g["final_states"].append(-1)
        elif m == 8:
            g["final_states"] = []
        elif m == 9:
            g["players"][i] = "Player 3"
        elif m == 10:
            g["players"][i] = "player 1"
        elif m == 11:
            g["transition_list"][i] = []
        elif m == 12:
            g["transition_list"][i] = tuple(g["transition_list"][i])
        elif m == 13:
            g["transition_list"][i][0] = list(g["transition_list"][i][0])
        elif m == 14:
            g["transition_list"][i][0] = g["transition_list"][i][0] + (0,)
        elif m == 15:
            g["transition_list"][i][0] = (None, g["transition_list"][i][0][1])
        elif m == 16:
            g["transition_list"][i][-1] = (g["transition_list"][i][-1][0], n)
        elif m == 17:
            g["transition_list"][i][-1] = (g["transition_list"][i][-1][0], -1)
        elif m == 18:
            g["transition_list"][i][-1] = (g["transition_list"][i][-1][0], 1.0)
        elif m == 19:
            g["players"].append(P1)
        elif m == 20:  # kind swapped: labels no longer fit the player
            g["players"][i] = PR if g["players"][i] != PR else P1
        elif m == 21:  # several defects at once: the first check wins
            g["rewards"][i] = -2
            g["final_states"].append(n + 3)
            g["players"][i] = "nobody"
        return g

    def node_dump(state_list):
        return [(s.idx, s.player, s.next_states, s.reach_probability, s.expected_rewards,
                 s.expected_rewards_min_reach, s.expected_reach_min_rewards)
                for s in state_list]

    # -------------------------------------------------------------- A + B: games ----
    rng = random.Random(50505)
    games = []
    for k in range(N_GAMES):
        style = style_for(k)
        game = gen_game(rng, style)
        games.append(game)
        for prune in (True, False):
            case = "A%04d-%s-%s" % (k, style, "prune" if prune else "noprune")
            log.reset(debug_level=(k % 2 == 0))
            description = copy.deepcopy(game)

            def solve():
                return tad.StochasticGame(prune_states=prune, **description).solve()
            emit(case + "-solve", guarded(solve))
            emit(case + "-input", repr(description))
            emit(case + "-log", log.digest.hexdigest())

            if k % 2 == 1:
                continue
            threshold = [10 ** (-6), 10 ** (-3), 10 ** (-8)][(k // 2) % 3]
            log.reset(debug_level=False)
            steps = []

            def by_hand():
                g = tad.StochasticGame(prune_states=prune, **copy.deepcopy(game))
                g.check_game()
                sl = g.init_states()
                solver = tad.Solver(threshold=threshold, state_list=sl)
                rs, n_reach = solver.solve_reachability(
                    g.transition_list, g.final_states, prune)
                steps.append(("reach", rs, n_reach))
                solver.prune_reachability(rs)
                steps.append(("cut", [s.next_states for s in sl]))
                if prune:
                    solver.prune_stochastich_game()
                    steps.append(("pruned", [s.next_states for s in sl]))
                fs, n_rew = solver.solve_total_rewards()
                steps.append(("final", fs, n_rew, node_dump(sl)))
                steps.append(("again", solver._get_total_rewards_strategies()))
                return "done"
            emit(case + "-hand", guarded(by_hand) + " " + repr(steps))

    # ------------------------------------------------------------- C: malformed ----
    rng = random.Random(60606)
    for k in range(N_MALFORMED):
        base = games[rng.randrange(len(games))]
        bad = mutate(rng, base)
        for prune in (True, False):
            log.reset(False)
            description = copy.deepcopy(bad)
            emit("C%04d-%s" % (k, prune), guarded(
                lambda: tad.StochasticGame(prune_states=prune, **description).solve()))

    # ---------------------------------------------------------- D: direct calls ----
    rng = random.Random(70707)
    values = [0, 0.0, -0.0, 1, 1.0, 1.0000004, 1.0000005, 1.0000006, 0.9999996, 0.9999994,
              2.5, 2.4999999, 2.5000001, 3, -1, -0.5, 1e-7, -1e-7, 4e-7, 6e-7, -4e-7, -6e-7,
              0.5, 0.05, 0.15, 0.25, 0.35, 2.675, 1e300, 5, 5.0000001, True, False,
              float("inf"), float("-inf"), float("nan"), Fraction(1, 3), Fraction(2, 3),
              Fraction(-1, 7), 7, 7.0, 1e-300, 123456.7891234, 123456.7891236]
    tame = [v for v in values if v == v and abs(v) != float("inf")]
    for k in range(N_DIRECT):
        log.reset(False)
        m = rng.randint(1, 6)
        pool = values if k % 3 == 0 else tame
        if k % 4 == 1:  # many ties
            pool = [rng.choice(tame) for _ in range(2)]
        state_list = [types.SimpleNamespace(
            expected_rewards=rng.choice(pool), reach_probability=rng.choice([0, 0.5, 1, 0.25]),
            expected_rewards_min_reach=0, expected_reach_min_rewards=0, idx=j)
            for j in range(m)]
        n_edges = rng.randint(1, 6)
        if rng.random() < 0.15:
            names = [rng.choice(ACTIONS) for _ in range(n_edges)]
        else:
            names = rng.sample(ACTIONS, n_edges)
        edges = [(name, rng.randrange(m)) for name in names]
        floor = rng.choice([0, 1, 3, 6, 6, 6, 8])
        p1 = tad.PlayerOne(player=P1, idx=0, reward=1, next_states=list(edges), num_states=m)
        p2 = tad.PlayerTwo(player=P2, idx=0, reward=1, next_states=list(edges), num_states=m)
        emit("D%04d-best" % k, guarded(
            lambda: p1.get_best_strategies_total_rewards(state_list, floor)))
        emit("D%04d-worst" % k, guarded(
            lambda: p2.get_worst_strategies_total_rewards(state_list, floor)))
        p2.next_states = []
        emit("D%04d-worst-empty" % k, guarded(
            lambda: p2.get_worst_strategies_total_rewards(state_list, floor)))

        choice = k % 8
        if choice == 0:
            keep = []
        elif choice == 1:
            keep = tuple(rng.sample(names, rng.randint(0, len(names))))
        elif choice == 2:
            keep = "".join(rng.sample(names, rng.randint(0, len(names))))
        elif choice == 3:
            keep = None
        elif choice == 4:
            keep = [["a"], rng.choice(names)]
        elif choice == 5:
            keep = [rng.choice(ACTIONS) for _ in range(4)]
        else:
            keep = rng.sample(names, rng.randint(0, len(names)))

        def cut():
            p1.prune_paths_reachability(keep)
            return p1.next_states, p1.get_best_strategies_total_rewards(state_list, floor)
        emit("D%04d-cut" % k, guarded(cut))
        p1.next_states = []
        emit("D%04d-cut-empty" % k, guarded(cut))

        # a hand-made solver: mixed kinds, strategies given from outside
        nodes = []
        for j in range(m):
            kind = rng.choice([P1, P2, PR])
            if kind == PR:
                nxt = [(0.5, rng.randrange(m)), (0.5, rng.randrange(m))]
            else:
                nxt = [(name, rng.randrange(m))
                       for name in rng.sample(ACTIONS, rng.randint(1, 4))]
            cls = {P1: tad.PlayerOne, P2: tad.PlayerTwo, PR: tad.ProbabilisticNode}[kind]
            node = cls(player=kind, idx=j, reward=rng.choice([0, 1, 2]), next_states=nxt,
                       num_states=m, is_final_node=False)
            node.expected_rewards = rng.choice(pool)
            nodes.append(node)
        strategies = []
        for node in nodes:
            if node.player == PR:
                strategies.append(None)
            else:
                acts = [a for a, _ in node.next_states]
                strategies.append(rng.sample(acts, rng.randint(0, len(acts))))
        if k % 10 == 9:
            strategies = strategies[:-1]
        solver = tad.Solver(nodes, threshold=rng.choice([10 ** (-6), 10 ** (-2), 10 ** (-9)]))

        def outside():
            before = solver._get_total_rewards_strategies()
            solver.prune_reachability(strategies)
            return (before, [n.next_states for n in nodes],
                    solver._get_total_rewards_strategies(), solver.floor)
        emit("D%04d-solver" % k, guarded(outside))

    # exhaustive: every single value, every ordered pair and some triples of boundary values
    log.reset(False)
    for floor in (6, 0):
        combos = [(v,) for v in values] + [(v, w) for v in values for w in values]
        combos += [(u, v, w) for u in values[::4] for v in values[1::5] for w in values[2::6]]
        for c, combo in enumerate(combos):
            state_list = [types.SimpleNamespace(expected_rewards=v) for v in combo]
            edges = [(ACTIONS[j], j) for j in range(len(combo))]
            p1 = tad.PlayerOne(player=P1, idx=0, reward=0, next_states=list(edges),
                               num_states=len(combo))
            p2 = tad.PlayerTwo(player=P2, idx=0, reward=0, next_states=list(edges),
                               num_states=len(combo))
            emit("X%d-%05d" % (floor, c), guarded(lambda: (
                p1.get_best_strategies_total_rewards(state_list, floor),
                p2.get_worst_strategies_total_rewards(state_list, floor))))

    # ------------------------------------------------- E: run_games and reports ----
    def report(results, name):
        for entry in results.values():
            entry["total_time"] = 0.125
        cr.save_results_to_file(results, "some/dir/%s.py" % name)
        with open(os.path.join("outputs", "%s.txt" % name), "rb") as fh:
            data = fh.read()
        return "%d %s" % (len(data), hashlib.sha256(data).hexdigest())

    def strip_time(results):
        return [(name, [(key, val) for key, val in entry.items() if key != "total_time"])
                for name, entry in results.items()]

    rng = random.Random(80808)
    for k in range(N_BATCHES):
        log.reset(False)
        batch = {}
        for j in range(rng.randint(1, 5)):
            r = rng.random()
            if r < 0.7:
                batch["g%d" % j] = copy.deepcopy(games[5 * rng.randrange(N_GAMES // 5) + rng.randrange(4)])
            elif r < 0.85:
                batch["g%d" % j] = mutate(rng, games[rng.randrange(N_GAMES)])
            else:
                batch["g%d" % j] = copy.deepcopy(games[rng.randrange(N_GAMES)])
        holder = {}

        def run():
            holder["results"] = cr.run_games(batch)
            return strip_time(holder["results"])
        emit("E%03d-run" % k, guarded(run))
        emit("E%03d-log" % k, log.digest.hexdigest())
        if "results" in holder:
            emit("E%03d-file" % k, guarded(lambda: report(holder["results"], "batch%d" % k)))

    for name in SMALL_INPUTS:
        log.reset(False)
        path = os.path.join(repo_dir, "inputs", name)
        holder = {}

        def run_file():
            holder["results"] = cr.run_games(cr.read_dict_from_file(path))
            return strip_time(holder["results"])
        emit("F-%s-run" % name, hashlib.sha256(guarded(run_file).encode()).hexdigest())
        emit("F-%s-log" % name, log.digest.hexdigest())
        if "results" in holder:
            emit("F-%s-file" % name, guarded(lambda: report(holder["results"], name[:-3])))

    emit("END", "complete")
    out.flush()


# --------------------------------------------------------------------------- parent ----

def main():
    if len(sys.argv) == 3 and sys.argv[1] == "--worker":
        worker(sys.argv[2])
        return 0
    if len(sys.argv) != 3:
        print(__doc__)
        return 2
    env = dict(os.environ, PYTHONHASHSEED="0", PYTHONDONTWRITEBYTECODE="1")
    procs = [subprocess.Popen([sys.executable, os.path.abspath(__file__), "--worker", d],
                              stdout=subprocess.PIPE, stderr=subprocess.PIPE, env=env)
             for d in sys.argv[1:3]]
    outputs = []
    for proc, d in zip(procs, sys.argv[1:3]):
        stdout, stderr = proc.communicate()
        lines = stdout.decode().splitlines()
        if proc.returncode != 0 or not lines or lines[-1] != "END\tcomplete":
            print("worker for %s failed (exit %s)" % (d, proc.returncode))
            print(stderr.decode()[-3000:])
            return 1
        outputs.append(lines)
    clean, patched = outputs
    for a, b in zip(clean, patched):
        if a != b:
            print("DIFFERENT at case %s" % a.split("\t", 1)[0])
            print("  clean  : %s" % a[:2000])
            print("  patched: %s" % b[:2000])
            return 1
    if len(clean) != len(patched):
        print("DIFFERENT number of observations: %d vs %d" % (len(clean), len(patched)))
        return 1
    budget = sum(1 for line in clean if "\tBUDGET" in line)
    errors = sum(1 for line in clean if "\tEXC " in line)
    print("%d observations compared; %d exceptions and %d budget cuts, identical on both sides"
          % (len(clean), errors, budget))
    print("SAME")
    return 0


if __name__ == "__main__":
    sys.exit(main())
