#!/usr/bin/env python
"""Equivalence check for refactorings of roberta_generator.py and
stochastic_game_from_roborta_board.py.

Usage:  python equiv.py <repo-root-A> <repo-root-B>

For each root a worker subprocess imports the two modules from that root and
runs the same battery of calls (hand-written edge cases, malformed inputs and
seeded random inputs).  Every observable result (return values, exception type
and message, text written to files / streams, names of files created, state of
the global random generator afterwards, exit codes and stdout/stderr of the
command line) is printed as one line.  The parent compares the two transcripts
line by line; prints SAME and exits 0 if identical, else prints the first
difference and exits 1.
"""
import contextlib
import io
import os
import random
import subprocess
import sys
import tempfile


# --------------------------------------------------------------------------
# worker
# --------------------------------------------------------------------------

def _worker(root):
    sys.path.insert(0, root)
    import roberta_generator as rg
    import stochastic_game_from_roborta_board as sg

    assert os.path.dirname(os.path.abspath(rg.__file__)) == os.path.abspath(root)
    assert os.path.dirname(os.path.abspath(sg.__file__)) == os.path.abspath(root)

    out = sys.__stdout__
    counter = [0]

    def emit(tag, value):
        counter[0] += 1
        line = "%06d %s = %s" % (counter[0], tag, value)
        out.write(line.replace("\\", "\\\\").replace("\n", "\\n").replace("\r", "\\r") + "\n")

    def call(tag, fn, *args, **kwargs):
        """Run fn, emit its repr'd result or its exception."""
        try:
            res = fn(*args, **kwargs)
        except BaseException as exc:  # noqa: BLE001 - we want everything
            emit(tag, "EXC %s: %s" % (type(exc).__name__, exc))
            return None
        emit(tag, "OK %r" % (res,))
        return res

    rnd = random.Random(20240607)

    def rand_board(length, width, max_move=3, max_reward=6):
        moves = [[rnd.randint(0, max_move) for _ in range(width)] for _ in range(length)]
        rewards = [[rnd.randint(0, max_reward) for _ in range(width)] for _ in range(length)]
        loose = [[rnd.randint(0, 1) for _ in range(width)] for _ in range(length)]
        return moves, rewards, loose

    # ---------------------------------------------------------------- boards
    boards = []
    # hand written
    boards.append(([[1]], [[0]], [[0]]))
    boards.append(([[3]], [[5]], [[1]]))
    boards.append(([[0]], [[2]], [[1]]))
    boards.append(([[2]], [[2]], [[0]]))
    boards.append(([[0, 1, 2, 3]], [[1, 2, 3, 4]], [[0, 1, 0, 1]]))
    boards.append(([[0], [1], [2], [3]], [[1], [2], [3], [4]], [[0], [1], [0], [1]]))
    boards.append(([[1, 1], [1, 1]], [[0, 0], [0, 0]], [[1, 1], [1, 1]]))
    boards.append(([[3, 3, 3], [3, 3, 3]], [[6, 6, 6], [0, 0, 0]], [[0, 0, 0], [1, 1, 1]]))
    boards.append(([[0, 2], [2, 0], [1, 3]], [[1, 0], [0, 1], [3, 3]], [[1, 0], [0, 1], [0, 0]]))
    boards.append(([[1, 0, 2, 3], [2, 2, 1, 0], [0, 1, 3, 1], [3, 1, 1, 2]],
                   [[0, 1, 2, 3], [4, 5, 0, 1], [2, 3, 4, 5], [5, 4, 3, 2]],
                   [[0, 1, 0, 0], [1, 0, 0, 1], [0, 0, 1, 0], [0, 1, 1, 0]]))
    # values that compare equal to the arrow codes (bool / float)
    boards.append(([[True, False, 2.0, 3.0]], [[1, 2, 3, 4]], [[True, False, 1, 0]]))
    # random ones
    for _ in range(120):
        length = rnd.randint(1, 5)
        width = rnd.randint(1, 6)
        boards.append(rand_board(length, width, max_move=rnd.choice([2, 3])))
    # float rewards (write_preamble truncates them with int())
    boards.append(([[1, 2]], [[1.7, 2.2]], [[0, 1]]))

    # malformed boards: unknown arrow codes, empty rows, ragged rows
    bad_boards = [
        ([[4, 1]], [[1, 1]], [[0, 0]]),
        ([[-1, 1]], [[1, 1]], [[0, 0]]),
        ([[1, 7], [9, 3]], [[1, 1], [2, 2]], [[0, 1], [1, 0]]),
        ([[None, 1]], [[1, 1]], [[0, 0]]),
        ([["1", 1]], [[1, 1]], [[0, 0]]),
        ([[1, 1]], [[1, 1]], [[2, 0]]),
        ([[1, 1]], [[1, 1]], [[0, -1]]),
        ([[1, 1]], [[1, "x"]], [[0, 0]]),
        ([[1]], [[1, 1]], [[0, 0]]),          # moves row too short
        ([[1, 1]], [[1]], [[0, 0]]),          # rewards row too short
        ([[1, 1]], [[1, 1]], [[0]]),          # loose row too short
        ([[1, 1]], [[1, 1]], []),             # no loose rows
        ([], [], []),
        ([[]], [[]], [[]]),
    ]

    probs = [0.1, 0.5, 0.25, 0.01, 0.99, 0.3, 1e-9, 0.07]

    # --------------------------------------------------- transition builders
    def builders(tag, board, length=None, width=None):
        moves, rewards, loose = board
        if length is None:
            length = len(moves)
        if width is None:
            width = len(moves[0]) if moves else 0
        n = length * width
        p = rnd.choice(probs)
        q = rnd.choice(probs)
        call(tag + ".p2", rg.player_two_transitions, length, width, moves, n, 2 * n)
        call(tag + ".p2b", rg.player_two_transitions, length, width, moves,
             offset_r=8 * n, offset_y=9 * n)
        call(tag + ".p1down.none", rg.player_one_down_transitions, length, width, 4 * n)
        call(tag + ".p1down.win", rg.player_one_down_transitions, length, width, 3 * n,
             winning_state=4 * n + 1)
        call(tag + ".p1down.zero", rg.player_one_down_transitions, length, width, 3 * n,
             winning_state=0)
        call(tag + ".p1lr.same", rg.player_one_left_right_transitions, length, width, moves,
             3 * n, 3 * n)
        call(tag + ".p1lr.diff", rg.player_one_left_right_transitions, length, width, moves,
             offset_l=5 * n, offset_r=6 * n)
        call(tag + ".p1lr.zero", rg.player_one_left_right_transitions, length, width, moves,
             0, 0)
        call(tag + ".tile", rg.prob_tile_break_transitions, length, width, p, loose, 0, 7 * n)
        call(tag + ".tile.kw", rg.prob_tile_break_transitions, length, width, q, loose,
             offset=n, loosing_state=10 * n)
        call(tag + ".rdown", rg.prob_robot_down_break_transitions, length, width, p, 3 * n,
             7 * n + 1)
        call(tag + ".rdown.kw", rg.prob_robot_down_break_transitions, length, width, q,
             offset=4 * n, winning_state=10 * n + 1)
        call(tag + ".rleft", rg.prob_robot_left_break_transitions, length, width, p, 3 * n)
        call(tag + ".rleft.kw", rg.prob_robot_left_break_transitions, length, width, q,
             offset=4 * n)
        call(tag + ".rright", rg.prob_robot_right_break_transitions, length, width, p, 3 * n)
        call(tag + ".rright.kw", rg.prob_robot_right_break_transitions, length, width, q,
             offset=4 * n)
        call(tag + ".p1dlr", rg.player_one_down_left_right_transitions, length, width, moves,
             5 * n, 6 * n, 7 * n)
        call(tag + ".p1dlr.kw", rg.player_one_down_left_right_transitions, length, width, moves,
             offset_d=5 * n, offset_l=6 * n, offset_r=7 * n)
        call(tag + ".light", rg.prob_light_break_transitions, length, width, p, n, 3 * n)
        call(tag + ".light.kw", rg.prob_light_break_transitions, length, width, q,
             offset_ok=2 * n, offset_break=3 * n)

    for k, board in enumerate(boards):
        builders("build[%d]" % k, board)
    for k, board in enumerate(bad_boards):
        builders("buildbad[%d]" % k, board)
    # dimensions that disagree with the board / degenerate dimensions
    builders("builddim.0x3", boards[4], length=0, width=3)
    builders("builddim.1x0", boards[4], length=1, width=0)
    builders("builddim.2x4", boards[4], length=2, width=4)
    builders("builddim.1x5", boards[4], length=1, width=5)
    builders("builddim.neg", boards[4], length=-1, width=-2)
    # non numeric probabilities / offsets in the probabilistic builders
    call("build.strprob.tile", rg.prob_tile_break_transitions, 1, 2, "p", [[1, 0]], 0, 9)
    call("build.strprob.down", rg.prob_robot_down_break_transitions, 1, 2, "p", 0, 9)
    call("build.strprob.left", rg.prob_robot_left_break_transitions, 1, 2, "p", 0)
    call("build.strprob.right", rg.prob_robot_right_break_transitions, 1, 2, "p", 0)
    call("build.strprob.light", rg.prob_light_break_transitions, 1, 2, "p", 0, 4)
    call("build.stroff.left", rg.prob_robot_left_break_transitions, 1, 2, 0.1, "o")
    call("build.stroff.right", rg.prob_robot_right_break_transitions, 1, 2, 0.1, "o")
    call("build.stroff.p2", rg.player_two_transitions, 1, 2, [[1, 3]], "a", "b")
    call("build.floatoff.left", rg.prob_robot_left_break_transitions, 2, 3, 0.1, 0.5)
    call("build.floatoff.right", rg.prob_robot_right_break_transitions, 2, 3, 0.1, 0.5)

    # ------------------------------------------------------ board generation
    def gen(tag, *args, **kwargs):
        res = call(tag, rg.gen_rnd_board, *args, **kwargs)
        # the state of the shared generator afterwards is observable too
        emit(tag + ".next", repr(random.random()))
        return res

    gen("gen.defaults", 0, 3, 3, 0.3)
    gen("gen.defaults.fd", 0, 3, 3, 0.3, 6, True)
    gen("gen.kw", seed=5, length=2, width=4, prob_loose_tile=0.5, max_reward=3, force_down=True)
    gen("gen.1x1", 1, 1, 1, 0.3)
    gen("gen.1x1.fd", 1, 1, 1, 0.3, force_down=True)
    gen("gen.big", 47, 10, 40, 0.3, 6, True)
    gen("gen.big2", 47, 10, 40, 0.3, 6, False)
    gen("gen.p0", 3, 4, 4, 0.0)
    gen("gen.p1", 3, 4, 4, 1.0)
    gen("gen.r1", 3, 4, 4, 0.3, 1)
    gen("gen.r0", 3, 4, 4, 0.3, 0)
    gen("gen.rneg", 3, 4, 4, 0.3, -1)
    gen("gen.rneg5", 3, 4, 4, 0.3, -5)
    gen("gen.rfloat", 3, 4, 4, 0.3, 2.5)
    gen("gen.rhuge", 3, 2, 2, 0.3, 5000)
    gen("gen.rhugeneg", 3, 2, 2, 0.3, -5000)
    gen("gen.rhugeneg.len0", 3, 0, 2, 0.3, -5000)
    gen("gen.rstr", 3, 2, 2, 0.3, "6")
    gen("gen.len0", 3, 0, 4, 0.3)
    gen("gen.len0.fd", 3, 0, 4, 0.3, 6, True)
    gen("gen.wid0", 3, 4, 0, 0.3)
    gen("gen.wid0.fd", 3, 4, 0, 0.3, 6, True)
    gen("gen.neg", 3, -2, -2, 0.3)
    gen("gen.pstr", 3, 2, 2, "0.3")
    gen("gen.pnone", 3, 2, 2, None)
    gen("gen.lenstr", 3, "2", 2, 0.3)
    gen("gen.widstr", 3, 2, "2", 0.3)
    gen("gen.widfloat", 3, 2, 2.0, 0.3)
    gen("gen.seedneg", -3, 2, 2, 0.3)
    gen("gen.seedstr", "abc", 2, 2, 0.3)
    gen("gen.seedfloat", 1.5, 2, 2, 0.3)
    gen("gen.seedlist", [1], 2, 2, 0.3)
    gen("gen.fd.truthy", 3, 3, 3, 0.3, 6, 1)
    gen("gen.fd.truthy2", 3, 3, 3, 0.3, 6, "yes")
    gen("gen.fd.falsy", 3, 3, 3, 0.3, 6, 0)
    gen("gen.fd.falsy2", 3, 3, 3, 0.3, 6, None)
    gen("gen.fd.falsy3", 3, 3, 3, 0.3, 6, [])
    for k in range(300):
        seed = rnd.choice([rnd.randint(0, 10), rnd.randint(0, 2 ** 40)])
        length = rnd.randint(1, 8)
        width = rnd.randint(1, 8)
        ploose = rnd.choice([0.3, 0.01, 0.99, rnd.random()])
        max_reward = rnd.choice([6, 1, 2, 3, 10, 40, rnd.randint(1, 20)])
        fd = rnd.choice([True, False])
        gen("gen.rand[%d]" % k, seed, length, width, ploose, max_reward, fd)
    # reproducibility: the same call twice
    gen("gen.repro.1", 12, 4, 5, 0.3, 6, True)
    gen("gen.repro.2", 12, 4, 5, 0.3, 6, True)

    # get_random_moves on its own (uses whatever state the generator is in)
    for k in range(40):
        random.seed(1000 + k)
        length = rnd.randint(0, 5)
        width = rnd.randint(0, 5)
        fd = rnd.choice([True, False, 0, 1, None, "x"])
        call("moves[%d]" % k, rg.get_random_moves, length, width, fd)
        emit("moves[%d].next" % k, repr(random.random()))

    # --------------------------------------------------------------- writers
    class Recorder(object):
        """A file-like object that records what is written (joined text)."""

        def __init__(self):
            self.chunks = []
            self.closed = False

        def write(self, text):
            if not isinstance(text, str):
                raise TypeError("write() argument must be str, not %s" % type(text).__name__)
            self.chunks.append(text)
            return len(text)

        def writelines(self, lines):
            for line in lines:
                self.write(line)

        def flush(self):
            pass

        def close(self):
            self.closed = True

        def text(self):
            return "".join(self.chunks)

    def writer(tag, fn, *args):
        rec = Recorder()
        try:
            res = fn(rec, *args)
        except BaseException as exc:  # noqa: BLE001
            emit(tag, "EXC %s: %s | written so far %r" % (type(exc).__name__, exc, rec.text()))
            return
        emit(tag, "OK %r closed=%r text=%r" % (res, rec.closed, rec.text()))

    def writers(tag, board, length=None, width=None):
        moves, rewards, loose = board
        if length is None:
            length = len(moves)
        if width is None:
            width = len(moves[0]) if moves else 0
        pt, pr, pl = rnd.choice(probs), rnd.choice(probs), rnd.choice(probs)
        writer(tag + ".pre", rg.write_preamble, length, width, moves, rewards, loose)
        writer(tag + ".A", rg.write_robot_A, length, width, moves, rewards, loose, pt)
        writer(tag + ".B", rg.write_robot_B, length, width, moves, rewards, loose, pt, pr)
        writer(tag + ".C", rg.write_robot_C, length, width, moves, rewards, loose, pt, pr, pl)

    for k, board in enumerate(boards):
        writers("write[%d]" % k, board)
    for k, board in enumerate(bad_boards):
        writers("writebad[%d]" % k, board)
    writers("writedim.0x3", boards[4], length=0, width=3)
    writers("writedim.1x0", boards[4], length=1, width=0)
    writers("writedim.2x4", boards[4], length=2, width=4)

    # text-mode real file (newline handling etc.) through write_robots
    workdir = tempfile.mkdtemp(prefix="equiv_r4_")
    os.chdir(workdir)

    def snapshot():
        """All files below the work directory with their contents."""
        found = []
        for base, _dirs, files in os.walk(workdir):
            for name in files:
                path = os.path.join(base, name)
                with open(path, "r", newline="") as handle:
                    found.append((os.path.relpath(path, workdir), handle.read()))
        return sorted(found)

    def wipe():
        for base, dirs, files in os.walk(workdir, topdown=False):
            for name in files:
                os.remove(os.path.join(base, name))
            for name in dirs:
                os.rmdir(os.path.join(base, name))

    def load_check(text):
        """The file must evaluate to the same dictionary in both versions."""
        try:
            return repr(eval(text))  # the solver's reader uses eval as well
        except BaseException as exc:  # noqa: BLE001
            return "EXC %s: %s" % (type(exc).__name__, exc)

    def robots(tag, file_name, board, pt, pr, pl, length=None, width=None):
        moves, rewards, loose = board
        if length is None:
            length = len(moves)
        if width is None:
            width = len(moves[0]) if moves else 0
        call(tag, rg.write_robots, file_name, length, width, moves, rewards, loose, pt, pr, pl)
        import gc
        gc.collect()
        snap = snapshot()
        emit(tag + ".files", repr(snap))
        for name, text in snap:
            emit(tag + ".eval[%s]" % name, load_check(text))
        wipe()

    for k, board in enumerate(boards[:40]):
        robots("robots[%d]" % k, "game_%d.py" % k, board,
               rnd.choice(probs), rnd.choice(probs), rnd.choice(probs))
    for k, board in enumerate(bad_boards):
        robots("robotsbad[%d]" % k, "bad_%d.py" % k, board, 0.1, 0.2, 0.3)
    robots("robots.nodir", os.path.join("missing", "x.py"), boards[0], 0.1, 0.1, 0.1)
    robots("robots.emptyname", "", boards[0], 0.1, 0.1, 0.1)
    robots("robots.nonename", None, boards[0], 0.1, 0.1, 0.1)
    os.mkdir("adir")
    robots("robots.isdir", "adir", boards[0], 0.1, 0.1, 0.1)
    # an existing longer file must be truncated
    with open("old.py", "w") as handle:
        handle.write("x" * 100000)
    robots("robots.overwrite", "old.py", boards[1], 0.1, 0.1, 0.1)

    # ---------------------------------------------------------- check_input
    good = dict(seed=0, width=3, length=3, prob_robot_break=0.1, prob_light_break=0.1,
                prob_loose_tile=0.3, prob_tile_break=0.1, max_reward=6)
    order = ["seed", "width", "length", "prob_robot_break", "prob_light_break",
             "prob_loose_tile", "prob_tile_break", "max_reward"]
    nan = float("nan")
    inf = float("inf")
    int_values = [-10 ** 9, -2, -1, 0, 1, 2, 10 ** 9, -0.5, 0.5, 0.0, -0.0, True, False,
                  nan, inf, -inf, "3", "", None, [], 1.0]
    prob_values = [-1, -1e-12, 0, 0.0, -0.0, 1e-300, 1e-12, 0.01, 0.5, 0.99, 1 - 1e-12, 1,
                   1.0, 1 + 1e-12, 2, True, False, nan, inf, -inf, "0.5", "", None, [], 100]

    call("check.good", rg.check_input, *[good[name] for name in order])
    call("check.good.kw", rg.check_input, **good)
    call("check.noargs", rg.check_input)
    call("check.toomany", rg.check_input, *([1] * 9))
    for name in order:
        values = prob_values if name.startswith("prob") else int_values
        for value in values:
            args = dict(good)
            args[name] = value
            call("check.%s=%r" % (name, value), rg.check_input, *[args[n] for n in order])
    # two or more bad values: the first one in the documented order wins
    for k in range(400):
        args = dict(good)
        for name in rnd.sample(order, rnd.randint(2, 8)):
            values = prob_values if name.startswith("prob") else int_values
            args[name] = rnd.choice(values)
        call("check.multi[%d]%r" % (k, [args[n] for n in order]),
             rg.check_input, *[args[n] for n in order])

    # ----------------------------------------------------------- prob_to_str
    for value in [0, 0.0, 0.001, 0.004, 0.005, 0.0049999, 0.0050001, 0.015, 0.025, 0.035, 0.045,
                  0.055, 0.07, 0.1, 0.14, 0.145, 0.155, 0.28, 0.29, 0.3, 0.57, 0.58, 0.5, 0.985,
                  0.99, 0.995, 0.999, 1, 1.0, 1.5, -0.1, -0.005, 1e-9, 1e9, nan, inf, "0.5", None,
                  True, [1]]:
        call("probstr(%r)" % (value,), rg.prob_to_str, value)
    for k in range(101):
        call("probstr(%d/100)" % k, rg.prob_to_str, k / 100)
        call("probstr(%d*0.01)" % k, rg.prob_to_str, k * 0.01)
        call("probstr(float('0.%02d'))" % k, rg.prob_to_str, float("%d.%02d" % (k // 100, k % 100)))
    for k in range(200):
        value = rnd.random()
        call("probstr(%r)" % value, rg.prob_to_str, value)

    # ------------------------------------------------------------------ main
    def run_main(tag, argv, make_inputs=True):
        wipe()
        if make_inputs:
            os.mkdir("inputs")
        old_argv = sys.argv
        sys.argv = ["roberta_generator.py"] + [str(a) for a in argv]
        so, se = io.StringIO(), io.StringIO()
        try:
            with contextlib.redirect_stdout(so), contextlib.redirect_stderr(se):
                try:
                    res = rg.main()
                    status = "OK %r" % (res,)
                except BaseException as exc:  # noqa: BLE001 - includes SystemExit
                    status = "EXC %s: %s" % (type(exc).__name__, exc)
        finally:
            sys.argv = old_argv
        import gc
        gc.collect()
        emit(tag, "%s argv=%r" % (status, argv))
        emit(tag + ".stdout", repr(so.getvalue()))
        emit(tag + ".stderr", repr(se.getvalue()))
        snap = snapshot()
        emit(tag + ".names", repr([name for name, _ in snap]))
        emit(tag + ".files", repr(snap))
        for name, text in snap:
            emit(tag + ".eval[%s]" % name, load_check(text))
        wipe()

    run_main("main.default", [])
    run_main("main.noinputs", [], make_inputs=False)
    run_main("main.help", ["--help"])
    run_main("main.h", ["-h"])
    run_main("main.fd", ["-f"])
    run_main("main.long", ["--seed", 47, "--width", 5, "--length", 5, "--prob_robot_break", 0.1,
                           "--prob_light_break", 0.1, "--prob_tile_break", 0.1,
                           "--prob_loose_tile", 0.3, "--max_reward", 6, "--force_down"])
    run_main("main.short", ["-s", 999132423, "-w", 3, "-l", 3, "-p", 0.01, "-q", 0.02, "-r", 0.1,
                            "-t", 0.3, "-m", 6])
    run_main("main.w1", ["-s", 1, "-w", 1, "-l", 2, "-q", 0.05, "-t", 0.001])
    run_main("main.l1", ["-s", 1, "-w", 2, "-l", 1, "-q", 0.05, "-t", 0.004])
    run_main("main.1x1", ["-w", 1, "-l", 1])
    run_main("main.1x1fd", ["-w", 1, "-l", 1, "-f"])
    run_main("main.abbrev", ["--se", 4, "--wid", 2, "--len", 2, "--max", 2, "--force"])
    run_main("main.ambiguous", ["--prob", 0.2])
    run_main("main.unknown", ["--nope", 1])
    run_main("main.positional", ["3"])
    run_main("main.badint", ["-s", "x"])
    run_main("main.floatint", ["-w", "2.0"])
    run_main("main.badfloat", ["-p", "x"])
    run_main("main.missingvalue", ["-p"])
    run_main("main.negseed", ["-s", -1])
    run_main("main.w0", ["-w", 0])
    run_main("main.l0", ["-l", 0])
    run_main("main.lneg", ["-l", -3])
    run_main("main.m0", ["-m", 0])
    run_main("main.p0", ["-p", 0])
    run_main("main.p1", ["-p", 1])
    run_main("main.q0", ["-q", 0.0])
    run_main("main.q1", ["-q", 1.0])
    run_main("main.r0", ["-r", 0])
    run_main("main.r1", ["-r", 1.5])
    run_main("main.t0", ["-t", -0.2])
    run_main("main.t1", ["-t", 1])
    run_main("main.pnan", ["-p", "nan"])
    run_main("main.tnan", ["-t", "nan"])
    run_main("main.pinf", ["-p", "inf"])
    run_main("main.two_bad", ["-s", -1, "-w", 0, "-p", 3])
    run_main("main.two_bad2", ["-m", 0, "-t", 3])
    run_main("main.bad.noinputs", ["-w", 0], make_inputs=False)
    run_main("main.repeat", ["-s", 1, "-s", 2])
    for k in range(0, 101, 1):
        # whole percentages in the name (C17): k/100 must show up as k
        if 0 < k < 100:
            which = ["-p", "-q", "-r", "-t"][k % 4]
            run_main("main.pct[%d]" % k, ["-w", 2, "-l", 2, which, repr(k / 100)])
    for k in range(150):
        argv = []
        if rnd.random() < 0.8:
            argv += ["-s", rnd.choice([rnd.randint(0, 50), rnd.randint(0, 2 ** 33), -1])]
        if rnd.random() < 0.8:
            argv += ["-w", rnd.choice([1, 2, 3, 4, 5, 6, 0, -1])]
        if rnd.random() < 0.8:
            argv += ["-l", rnd.choice([1, 2, 3, 4, 5, 6, 0])]
        if rnd.random() < 0.6:
            argv += ["-m", rnd.choice([1, 2, 6, 9, 0, -4])]
        for flag in ["-p", "-q", "-r", "-t"]:
            if rnd.random() < 0.6:
                argv += [flag, rnd.choice([repr(rnd.randint(1, 99) / 100),
                                           repr(round(rnd.random(), 4)),
                                           "0.005", "0.995", "0", "1", "1e-5"])]
        if rnd.random() < 0.5:
            argv += ["-f"]
        run_main("main.rand[%d]" % k, argv)

    # ------------------------------------------------- manual board helper
    def manual(tag, board, pr, pl, pt, make_inputs=True):
        wipe()
        if make_inputs:
            os.mkdir("inputs")
        moves, rewards, loose = board
        call(tag, sg.create_sg_from_board, moves, rewards, loose, pr, pl, pt)
        import gc
        gc.collect()
        snap = snapshot()
        emit(tag + ".names", repr([name for name, _ in snap]))
        emit(tag + ".files", repr(snap))
        for name, text in snap:
            emit(tag + ".eval[%s]" % name, load_check(text))
        wipe()

    for k, board in enumerate(boards[:60]):
        manual("manual[%d]" % k, board, rnd.choice(probs), rnd.choice(probs), rnd.choice(probs))
    for k, board in enumerate(bad_boards):
        manual("manualbad[%d]" % k, board, 0.1, 0.2, 0.3)
    manual("manual.noinputs", boards[0], 0.1, 0.1, 0.1, make_inputs=False)
    manual("manual.strprob", boards[0], "a", 0.1, 0.1)
    manual("manual.kw", boards[9], 0.15, 0.25, 0.35)
    call("manual.kwargs", sg.create_sg_from_board, moves=[[1]], rewards=[[2]], loose_tiles=[[0]],
         prob_robot_break=0.1, prob_light_break=0.2, prob_tile_break=0.3)
    emit("manual.kwargs.files", repr(snapshot()))
    for matrix in [[[1, 2], [3, 0]], [[5]], [[-1, -2]], [[1.5, 2]], [], [[]], [[1], []], [[1], [2, 9]],
                   [[1, "a"]], None, [["a", "b"]], ((1, 2), (3, 4)), [[True, False]]]:
        call("maxmatrix(%r)" % (matrix,), sg.get_max_from_matrix, matrix)

    # ------------------------------------------------ module level constants
    emit("const.MOVE_SINTAX", repr(rg.MOVE_SINTAX))
    emit("const.TILE_SYNTAX", repr(rg.TILE_SYNTAX))
    emit("const.spaces", repr((rg.FOUR_SPACES, rg.EIGHT_SPACES, rg.TWELVE_SPACES,
                               rg.SIXTEEN_SPACES)))
    parser = rg.init_parser()
    emit("parser.help", repr(parser.format_help()))
    emit("parser.usage", repr(parser.format_usage()))
    emit("parser.defaults", repr(sorted(vars(parser.parse_args([])).items())))

    wipe()
    os.chdir(root)
    os.rmdir(workdir)
    emit("done", str(counter[0]))


# --------------------------------------------------------------------------
# parent
# --------------------------------------------------------------------------

def _run_worker(root):
    env = dict(os.environ)
    env["PYTHONDONTWRITEBYTECODE"] = "1"
    env["PYTHONHASHSEED"] = "0"
    env["COLUMNS"] = "80"
    env.pop("PYTHONPATH", None)
    proc = subprocess.run(
        [sys.executable, "-W", "ignore", os.path.abspath(__file__), "--worker",
         os.path.abspath(root)],
        stdout=subprocess.PIPE, stderr=subprocess.PIPE, env=env, universal_newlines=True)
    if proc.returncode != 0:
        print("worker for %s failed with code %d\n%s" % (root, proc.returncode, proc.stderr[-4000:]))
        sys.exit(2)
    return proc.stdout.splitlines()


def main():
    if len(sys.argv) == 3 and sys.argv[1] == "--worker":
        _worker(sys.argv[2])
        return 0
    if len(sys.argv) != 3:
        print(__doc__)
        return 2
    root_a, root_b = sys.argv[1], sys.argv[2]
    lines_a = _run_worker(root_a)
    lines_b = _run_worker(root_b)
    abs_a, abs_b = os.path.abspath(root_a), os.path.abspath(root_b)
    for idx, (la, lb) in enumerate(zip(lines_a, lines_b)):
        # paths of the two roots may legitimately differ inside messages
        if la.replace(abs_a, "<ROOT>") != lb.replace(abs_b, "<ROOT>"):
            print("DIFFERENT at record %d" % (idx + 1))
            print("A: " + la[:3000])
            print("B: " + lb[:3000])
            return 1
    if len(lines_a) != len(lines_b):
        print("DIFFERENT number of records: %d vs %d" % (len(lines_a), len(lines_b)))
        return 1
    if not lines_a or not lines_a[-1].split(" ", 1)[1].startswith("done"):
        print("worker transcript incomplete")
        return 2
    print("SAME (%d observations compared)" % len(lines_a))
    return 0


if __name__ == "__main__":
    sys.exit(main())
