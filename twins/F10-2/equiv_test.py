#!/usr/bin/env python
"""
Equivalence / property test for property C10
("Solving leaves the game description intact and is repeatable").

usage: python equiv_test.py <path-to-patched-root> <path-to-clean-root>

The two trees are loaded in separate subprocesses (same module names).  Both
workers receive the very same scenarios (a pickle written by the parent) and
return everything observable that the property talks about:

  * for every game and every history of solves (same object / fresh objects that
    share the caller's lists, pruned / unpruned, repeated, any order): the
    result of each solve (or the exception), a repr of the description after
    each solve, and whether the caller's inner lists are still the same objects;
  * node level: the pruning primitives (remove_path, prune_paths,
    prune_paths_reachability, strategy selection) applied to nodes built on
    caller lists: resulting next_states and the caller's list afterwards;
  * malformed descriptions: exception type and message of solve();
  * driver: run_games() results (minus timing), the input dictionary afterwards,
    and the report written by save_results_to_file() (minus the timing line).

The parent FAILs when (a) anything above differs between the trees, or (b) the
property itself is violated in the patched tree (description changed, or two
solves of the same description in the same mode disagree).

Variant 2 adds a statistic (StochasticGame.pruning_summary, two result keys, two
report lines) and a prune_modes option of run_games.  The new keys / lines are
the only things filtered out of the tree-to-tree comparison; the new code paths
are checked on their own in the tree that has them (feature detected):
pruning_summary must be repeatable, consistent with the description and reset
by a failing solve; run_games with every prune_modes value must leave the input
intact and agree with the default run.
"""
import copy
import os
import pickle
import random
import signal
import subprocess
import sys
import tempfile

# Keys of the driver's result dictionaries / prefixes of report lines that are
# allowed to differ (timing only; a feature variant may add its own new ones).
IGNORED_RESULT_KEYS = {"total_time", "n_transitions_kept", "states_without_transitions"}
IGNORED_REPORT_PREFIXES = ("Total time", "transitions kept", "states left empty")

N_RANDOM_GAMES = 700
PROBE_TIMEOUT = 1.0      # seconds, one solve on the clean tree; slower ones are left out
SOLVE_TIMEOUT = 60       # seconds, per game (all its histories); a safety net only
MAX_INPUT_FILE_SIZE = 70000

P1, P2, PR = "Player 1", "Player 2", "Probabilistic"
ACTIONS = ["alfa", "beta", "gamma", "delta", "epsilon", "x", "y"]


# --------------------------------------------------------------------------- #
# scenario generation (parent only)
# --------------------------------------------------------------------------- #

def split_probability(rng, parts):
    """parts probabilities adding up to 1 (up to float error), several styles."""
    style = rng.random()
    if parts == 1:
        return [rng.choice([1, 1.0])]
    if style < 0.3:
        return [1 / parts] * parts
    if style < 0.6:
        den = rng.choice([4, 5, 8, 10, 20, 100])
        cuts = sorted(rng.sample(range(1, den), min(parts - 1, den - 1)))
        while len(cuts) < parts - 1:
            cuts.append(cuts[-1])
        cuts = [0] + sorted(cuts) + [den]
        probs = [(b - a) / den for a, b in zip(cuts, cuts[1:])]
        if all(p > 0 for p in probs):
            return probs
        return [1 / parts] * parts
    if style < 0.75:
        # a tiny and a near-1 probability
        eps = rng.choice([1e-3, 1e-6, 1e-9])
        rest = [(1 - eps) / (parts - 1)] * (parts - 1)
        return [eps] + rest
    raw = [rng.random() + 0.05 for _ in range(parts)]
    total = sum(raw)
    return [r / total for r in raw]


def random_game(rng):
    """
    A well-formed game whose value iterations terminate: player states only move
    forward (or are absorbing with reward 0); probabilistic states keep at least
    30% of their mass on forward moves, the rest may go back (cycles) or stay.
    """
    n = rng.choice([1, 2, 2, 3, 3, 4, 5, 6, 7, 8, 9, 10, 12, 15])
    n_absorbing = 1 if n == 1 else rng.randint(1, max(1, min(4, n // 2)))
    absorbing = set(range(n - n_absorbing, n))
    if n > 3 and rng.random() < 0.3:
        # an absorbing state in the middle (dead end or an early goal)
        absorbing.add(rng.randrange(1, n - 1))
    rewards, players, transitions = [], [], []
    back_budget = rng.choice([0, 1, 2, 3])
    for i in range(n):
        if i in absorbing:
            kind = rng.choice([PR, PR, P1, P2])
            players.append(kind)
            rewards.append(0)
            transitions.append([(rng.choice([1, 1.0]), i)] if kind == PR
                               else [(rng.choice(ACTIONS), i)])
            continue
        forward = [j for j in range(i + 1, n)]
        kind = rng.choice([P1, P2, PR])
        players.append(kind)
        rewards.append(rng.choice([0, 0, 1, 1, 2, 3, 5, 10, 0.5, 2.25, 100, 10 ** 6]))
        if kind == PR:
            k = rng.randint(1, min(4, len(forward) + 1))
            targets = [rng.choice(forward)]
            for _ in range(k - 1):
                if back_budget > 0 and rng.random() < 0.4:
                    targets.append(rng.randrange(0, i + 1))
                    back_budget -= 1
                else:
                    targets.append(rng.choice(forward))
            probs = split_probability(rng, len(targets))
            # the first target is a forward one: make sure it carries >= 0.3 when
            # there is any backward / self target
            if any(t <= i for t in targets) and probs[0] < 0.3:
                big = max(range(len(probs)), key=lambda q: probs[q])
                probs[0], probs[big] = probs[big], probs[0]
                if probs[0] < 0.3:
                    probs = [0.4] + [0.6 / (len(targets) - 1)] * (len(targets) - 1)
            order = list(range(len(targets)))
            rng.shuffle(order)
            transitions.append([(probs[q], targets[q]) for q in order])
        else:
            k = rng.randint(1, min(4, max(1, len(forward) + 1)))
            names = rng.sample(ACTIONS, k)
            # duplicated targets give ties between actions
            transitions.append([(name, rng.choice(forward)) for name in names])
    n_final = rng.choice([1, 1, 1, 2, 3])
    candidates = sorted(absorbing)
    rng.shuffle(candidates)
    final_states = candidates[:max(1, min(n_final, len(candidates)))]
    if rng.random() < 0.1 and n > 2:
        # a final state that is not absorbing
        final_states.append(rng.randrange(0, n))
    if rng.random() < 0.1:
        final_states.append(final_states[0])       # listed twice
    if rng.random() < 0.5:
        final_states.sort()
    return {"rewards": rewards, "players": players,
            "transition_list": transitions, "final_states": final_states}


def boundary_games():
    games = {}
    games["single_final"] = {"rewards": [0], "players": [PR],
                             "transition_list": [[(1, 0)]], "final_states": [0]}
    games["single_final_p1"] = {"rewards": [0], "players": [P1],
                                "transition_list": [[("stay", 0)]], "final_states": [0]}
    games["initial_cannot_reach"] = {
        "rewards": [1, 0, 0], "players": [PR, PR, PR],
        "transition_list": [[(1, 1)], [(1, 1)], [(1, 2)]], "final_states": [2]}
    games["p1_all_dead_and_one_good"] = {
        "rewards": [0, 5, 7, 0, 0], "players": [P1, PR, PR, PR, PR],
        "transition_list": [[("a", 1), ("b", 2), ("c", 4)], [(0.5, 3), (0.5, 4)],
                            [(0.5, 3), (0.5, 4)], [(1, 3)], [(1, 4)]],
        "final_states": [3]}
    games["figure_5_5_like"] = {
        "rewards": [0, 0, 0, 10, 1, 0, 0, 0],
        "players": [P1, P2, P2, PR, PR, PR, PR, PR],
        "transition_list": [[("alfa", 1), ("beta", 2)], [("x", 3)], [("x", 4)],
                            [(0.5, 5), (0.5, 6)], [(0.25, 7), (0.75, 6)],
                            [(1, 5)], [(1, 6)], [(1, 7)]],
        "final_states": [6]}
    games["prob_loses_all_but_one"] = {
        "rewards": [3, 0, 0, 0, 0], "players": [PR, PR, PR, PR, PR],
        "transition_list": [[(0.1, 1), (0.2, 2), (0.3, 3), (0.4, 4)],
                            [(1, 1)], [(1, 2)], [(1, 3)], [(1, 4)]],
        "final_states": [4]}
    games["prob_duplicate_entries"] = {
        "rewards": [3, 0, 0], "players": [PR, PR, PR],
        "transition_list": [[(0.25, 1), (0.25, 1), (0.25, 2), (0.25, 2)],
                            [(1, 1)], [(1, 2)]],
        "final_states": [2]}
    games["p1_duplicate_actions"] = {
        "rewards": [1, 0, 0], "players": [P1, PR, PR],
        "transition_list": [[("a", 1), ("a", 2), ("b", 2)], [(1, 1)], [(1, 2)]],
        "final_states": [2]}
    games["p2_can_kill"] = {
        "rewards": [1, 2, 0, 0], "players": [P1, P2, PR, PR],
        "transition_list": [[("go", 1)], [("good", 2), ("bad", 3)], [(1, 2)], [(1, 3)]],
        "final_states": [2]}
    games["p2_unreachable_after_pruning"] = {
        "rewards": [0, 4, 2, 0, 0, 1], "players": [P1, P2, PR, PR, PR, P2],
        "transition_list": [[("l", 1), ("r", 2)], [("k", 4), ("s", 5)],
                            [(0.5, 3), (0.5, 4)], [(1, 3)], [(1, 4)],
                            [("t", 4)]],
        "final_states": [3]}
    games["cycle_with_exit"] = {
        "rewards": [1, 1, 0, 0], "players": [P1, PR, PR, PR],
        "transition_list": [[("in", 1)], [(0.6, 0), (0.3, 2), (0.1, 3)], [(1, 2)], [(1, 3)]],
        "final_states": [2]}
    games["every_state_final"] = {
        "rewards": [0, 0], "players": [PR, PR],
        "transition_list": [[(1, 1)], [(1, 1)]], "final_states": [0, 1]}
    games["tuple_containers"] = {
        "rewards": (1, 0, 0), "players": (P1, PR, PR),
        "transition_list": ([("a", 1), ("b", 2)], [(1, 1)], [(1, 2)]),
        "final_states": (2,)}
    games["tiny_probability"] = {
        "rewards": [0, 10 ** 25, 1, 0, 0], "players": [P1, PR, PR, PR, PR],
        "transition_list": [[("alfa", 1), ("beta", 2)], [(1e-9, 3), (1 - 1e-9, 4)],
                            [(0.99, 3), (0.01, 4)], [(1, 3)], [(1, 4)]],
        "final_states": [3]}
    return games


def malformed_games():
    ok = boundary_games()["p2_can_kill"]
    out = {}

    def variant(name, **changes):
        game = copy.deepcopy(ok)
        game.update(changes)
        out[name] = game

    variant("empty_transitions_first", transition_list=[[], [("good", 2), ("bad", 3)], [(1, 2)], [(1, 3)]])
    variant("empty_then_bad_tuple", transition_list=[[], [("good", 2, 3)], [(1, 2)], [(1, 3)]])
    variant("bad_tuple_then_empty", transition_list=[[("go", 1, 1)], [], [(1, 2)], [(1, 3)]])
    variant("none_transitions", transition_list=[None, [("good", 2), ("bad", 3)], [(1, 2)], [(1, 3)]])
    variant("tuple_of_transitions", transition_list=[(("go", 1),), [("good", 2), ("bad", 3)], [(1, 2)], [(1, 3)]])
    variant("list_transition", transition_list=[[["go", 1]], [("good", 2), ("bad", 3)], [(1, 2)], [(1, 3)]])
    variant("out_of_range", transition_list=[[("go", 4)], [("good", 2), ("bad", 3)], [(1, 2)], [(1, 3)]])
    variant("negative_target", transition_list=[[("go", -1)], [("good", 2), ("bad", 3)], [(1, 2)], [(1, 3)]])
    variant("float_target", transition_list=[[("go", 1.0)], [("good", 2), ("bad", 3)], [(1, 2)], [(1, 3)]])
    variant("action_not_str", transition_list=[[(0.5, 1)], [("good", 2), ("bad", 3)], [(1, 2)], [(1, 3)]])
    variant("prob_not_number", transition_list=[[("go", 1)], [("good", 2), ("bad", 3)], [("p", 2)], [(1, 3)]])
    variant("unknown_player", players=[P1, "Player 3", PR, PR])
    variant("short_transition_list", transition_list=[[("go", 1)], [("good", 2), ("bad", 3)], [(1, 2)]])
    variant("short_rewards", rewards=[1, 2, 0])
    variant("negative_reward", rewards=[1, -2, 0, 0])
    variant("final_out_of_range", final_states=[4])
    variant("final_negative", final_states=[-1])
    variant("no_final_states", final_states=[])
    return out


def make_histories(rng):
    fixed = [
        [("same", True), ("same", True)],
        [("same", False), ("same", False)],
        [("same", True), ("fresh", False), ("same", True), ("fresh", True)],
        [("fresh", False), ("fresh", True), ("fresh", False)],
    ]
    for _ in range(2):
        fixed.append([(rng.choice(["same", "fresh"]), rng.choice([True, False]))
                      for _ in range(rng.randint(2, 5))])
    return fixed


def node_cases(rng):
    cases = []
    for _ in range(300):
        n = rng.randint(2, 7)
        k = rng.randint(1, 5)
        kind = rng.choice([P1, PR, P2])
        if kind == PR:
            probs = split_probability(rng, k)
            trans = [(p, rng.randrange(n)) for p in probs]
            if rng.random() < 0.3:
                trans.append(trans[0])          # a duplicated entry
        else:
            trans = [(rng.choice(ACTIONS), rng.randrange(n)) for _ in range(k)]
        reach = [rng.choice([0, 0, 0.0, 1, 0.5, 0.25, 0.9999996, 0.9999994, 1e-7, 0.3])
                 for _ in range(n)]
        rew = [rng.choice([0, 1, 2.5, 2.5000004, 2.4999996, 7, 100]) for _ in range(n)]
        victim = rng.choice(trans) if rng.random() < 0.85 else (
            (0.123, 0) if kind == PR else ("nope", 0))
        keep = rng.sample(ACTIONS, rng.randint(0, 4))
        cases.append({"player": kind, "n": n, "transitions": trans, "reach": reach,
                      "rew": rew, "victim": victim, "keep": keep})
    return cases


def load_input_files(clean_root):
    games_by_file = {}
    inputs = os.path.join(clean_root, "inputs")
    for file_name in sorted(os.listdir(inputs)):
        path = os.path.join(inputs, file_name)
        if not file_name.endswith(".py") or os.path.getsize(path) > MAX_INPUT_FILE_SIZE:
            continue
        with open(path) as handle:
            games_by_file[file_name] = eval(handle.read())
    return games_by_file


def candidate_games(clean_root):
    rng = random.Random(20241010)
    games = {}
    for name, game in boundary_games().items():
        games["boundary/" + name] = game
    for i in range(N_RANDOM_GAMES):
        games["random/%d" % i] = random_game(rng)
    files = load_input_files(clean_root)
    for file_name, file_games in files.items():
        for name, game in file_games.items():
            games["file/%s/%s" % (file_name, name)] = {
                k: v for k, v in game.items() if k != "prune_states"}
    return games, files


def build_scenarios(games, files, probe):
    """
    probe: {game name: {mode: "ok" | "error" | "slow"}} measured on the clean tree.
    Some of the shipped input files hold games whose unpruned value iteration
    does not converge (the driver never gets there); those solves are left out.
    """
    rng = random.Random(20241011)

    def usable(name, mode):
        return probe[name][mode] != "slow"

    def driver_usable(name):
        # the prune_modes checks also run the unpruned solve on its own
        return probe[name][True] != "slow" and probe[name][False] != "slow"

    solve_items = []
    for name, game in games.items():
        modes = [mode for mode in (True, False) if usable(name, mode)]
        histories = [[step for step in history if step[1] in modes]
                     for history in make_histories(rng)]
        histories = [history for history in histories if history]
        if histories:
            solve_items.append((name, game, histories))

    driver_batches = {}
    names = [n for n in games if n.startswith("random/") and driver_usable(n)]
    for b in range(25):
        chosen = rng.sample(names, 4)
        driver_batches["batch_%d" % b] = {c.replace("/", "_"): copy.deepcopy(games[c])
                                          for c in chosen}
    driver_batches["boundary"] = {n.split("/")[1]: copy.deepcopy(g) for n, g in games.items()
                                  if n.startswith("boundary/") and driver_usable(n)}
    driver_batches["malformed"] = copy.deepcopy(malformed_games())
    for file_name, file_games in files.items():
        kept = {name: copy.deepcopy(game) for name, game in file_games.items()
                if driver_usable("file/%s/%s" % (file_name, name))}
        if kept:
            driver_batches["file_" + file_name.replace(".", "_")] = kept
    return {"solve": solve_items, "malformed": malformed_games(),
            "nodes": node_cases(rng), "driver": driver_batches}


# --------------------------------------------------------------------------- #
# worker (one per tree)
# --------------------------------------------------------------------------- #

class _Timeout(Exception):
    pass


def _alarm(signum, frame):
    raise _Timeout()


def describe(game):
    return repr((game["rewards"], game["players"], game["transition_list"], game["final_states"]))


def outcome(callable_):
    try:
        return ("ok", repr(callable_()))
    except _Timeout:
        raise
    except Exception as error:            # noqa: the kind of failure is part of the behaviour
        return ("error", type(error).__name__, str(error))


def check_summary(name, mode, game, result, summary, first_summary):
    """The new statistic of variant 2: repeatable, consistent, never stale."""
    problems = []
    if result[0] != "ok":
        if summary is not None:
            problems.append("%s: stale pruning_summary after a failing solve" % name)
        return problems
    if first_summary.setdefault(mode, summary) != summary:
        problems.append("%s: pruning_summary (prune=%s) is not repeatable" % (name, mode))
    total = sum(len(t) for t in game["transition_list"])
    kept, removed = summary["transitions_kept"], summary["transitions_removed"]
    empty = summary["states_without_transitions"]
    if kept + removed != total or kept < 0 or removed < 0:
        problems.append("%s: pruning_summary does not add up: %r" % (name, summary))
    if not mode and empty:
        # without pruning only Player 1 loses actions, and never all of them
        problems.append("%s: unpruned solve reports emptied states %r" % (name, empty))
    if sorted(set(empty)) != empty or any(not 0 <= i < len(game["players"]) for i in empty):
        problems.append("%s: bad states_without_transitions %r" % (name, empty))
    return problems


def worker_solve(tad, name, game, histories):
    """Runs every history on the SAME description object (no copies)."""
    snapshot = copy.deepcopy(game)
    snapshot_repr = describe(snapshot)
    inner_ids = [id(t) for t in game["transition_list"]]
    records = []
    violations = []
    first_by_mode = {}
    first_summary = {}
    for history in histories:
        same = tad.StochasticGame(game["rewards"], game["players"], game["transition_list"],
                                  game["final_states"])
        steps = []
        for how, mode in history:
            if how == "same":
                sgame = same
                sgame.prune_states = mode
            else:
                sgame = tad.StochasticGame(game["rewards"], game["players"],
                                           game["transition_list"], game["final_states"],
                                           prune_states=mode)
            result = outcome(sgame.solve)
            summary = copy.deepcopy(getattr(sgame, "pruning_summary", "n/a"))
            if summary != "n/a":
                violations.extend(check_summary(name, mode, game, result, summary, first_summary))
            after = describe(game)
            same_objects = inner_ids == [id(t) for t in game["transition_list"]]
            steps.append((how, mode, result, after, same_objects))
            if after != snapshot_repr or game != snapshot or not same_objects:
                violations.append("%s: description changed by a %s solve (prune=%s)"
                                  % (name, how, mode))
            if first_by_mode.setdefault(mode, result) != result:
                violations.append("%s: solve (prune=%s) is not repeatable" % (name, mode))
        records.append(steps)
    return records, violations


def worker_nodes(tad, case):
    """The pruning primitives applied to a node built on a caller's list."""
    out = []
    classes = {P1: tad.PlayerOne, P2: tad.PlayerTwo, PR: tad.ProbabilisticNode}
    n = case["n"]

    def fresh_world():
        caller_list = list(case["transitions"])
        node = classes[case["player"]](player=case["player"], idx=0, reward=1,
                                       next_states=caller_list, num_states=n,
                                       is_final_node=False)
        others = []
        for i in range(n):
            other = tad.ProbabilisticNode(player=PR, idx=i, reward=0, next_states=[(1, i)],
                                          num_states=n, is_final_node=False)
            other.reach_probability = case["reach"][i]
            other.expected_rewards = case["rew"][i]
            others.append(other)
        return caller_list, node, others

    def run(method_name, make_args, error_message_matters=True):
        caller_list, node, others = fresh_world()
        method = getattr(node, method_name, None)
        if method is None:
            out.append((method_name, "n/a"))
            return
        result = outcome(lambda: method(*make_args(others)))
        if result[0] == "error" and not error_message_matters:
            result = result[:2]
        out.append((method_name, result, repr(node.next_states) if result[0] == "ok" else None,
                    repr(caller_list), caller_list == case["transitions"]))

    # removing an absent transition: only the exception type is compared
    absent = case["victim"] not in case["transitions"]
    run("remove_path", lambda others: (case["victim"],), error_message_matters=not absent)
    run("prune_paths", lambda others: (others,))
    run("prune_paths_reachability", lambda others: (case["keep"],))
    for name in ("get_best_strategies_reachability", "get_best_strategies_total_rewards",
                 "get_worst_strategies_reachability", "get_worst_strategies_total_rewards"):
        run(name, lambda others: (others, 6))
    run("value_iteration_reach", lambda others: (others,))
    # Solver.prune_states on a small world made of this node and absorbing others
    caller_list, node, others = fresh_world()
    world = [node] + others[1:]
    solver = tad.Solver(world)
    result = outcome(lambda: (solver.prune_paths(), solver.prune_states()))
    out.append(("solver.prune", result, repr([s.next_states for s in world]), repr(caller_list)))
    return out


def filter_results(results):
    return {name: {k: repr(v) for k, v in sorted(res.items()) if k not in IGNORED_RESULT_KEYS}
            for name, res in results.items()}


def worker_driver(driver, batch_name, games_dict, work_dir):
    before = copy.deepcopy(games_dict)
    results = outcome(lambda: filter_results(driver.run_games(games_dict)))
    # run_games is allowed to add its own "prune_states" key, nothing else may change
    stripped = {name: {k: v for k, v in game.items() if k != "prune_states"}
                for name, game in games_dict.items()}
    unchanged = stripped == before
    report = None
    if results[0] == "ok":
        raw = driver.run_games(copy.deepcopy(before))
        driver.save_results_to_file(raw, "inputs/%s.py" % batch_name)
        with open(os.path.join(work_dir, "outputs", batch_name + ".txt")) as handle:
            report = [line for line in handle.read().split("\n")
                      if not line.startswith(IGNORED_REPORT_PREFIXES)]
    extra = []
    if results[0] == "ok" and hasattr(driver, "PRUNE_MODES"):
        extra = check_prune_modes(driver, batch_name, before)
    return results, repr(games_dict), unchanged and not extra, report, extra


def check_prune_modes(driver, batch_name, before):
    """run_games(prune_modes=...) against the default run, patched tree only."""
    problems = []
    default = filter_results(driver.run_games(copy.deepcopy(before)))
    for modes in [(True, False), (True,), (False,), (False, True), (True, True), ()]:
        games_dict = copy.deepcopy(before)
        results = filter_results(driver.run_games(games_dict, prune_modes=modes))
        stripped = {name: {k: v for k, v in game.items() if k != "prune_states"}
                    for name, game in games_dict.items()}
        if stripped != before:
            problems.append("%s: prune_modes=%r changed the input" % (batch_name, modes))
        expected_names = {name if mode else name + "_no_prune" for name in before for mode in modes}
        if set(results) != expected_names:
            problems.append("%s: prune_modes=%r wrong result names" % (batch_name, modes))
        for name, result in results.items():
            # a skipped run ("Game not solved") depends on the order of the modes
            solved = "'Game solved'"
            if result["msg"] == solved and default.get(name, {}).get("msg") == solved \
                    and result != default[name]:
                problems.append("%s: prune_modes=%r differs from the default run for %s"
                                % (batch_name, modes, name))
        if modes == (True, False) and results != default:
            problems.append("%s: explicit default prune_modes differs" % batch_name)
    return problems


def probe(root, games_path, out_path):
    """Which (game, mode) solves finish quickly? Measured on copies, clean tree."""
    sys.path.insert(0, os.path.abspath(root))
    import tad
    with open(games_path, "rb") as handle:
        games = pickle.load(handle)
    signal.signal(signal.SIGALRM, _alarm)
    verdicts = {}
    for name, game in games.items():
        verdicts[name] = {}
        for mode in (True, False):
            fresh = copy.deepcopy(game)
            signal.setitimer(signal.ITIMER_REAL, PROBE_TIMEOUT)
            try:
                tad.StochasticGame(prune_states=mode, **fresh).solve()
                verdicts[name][mode] = "ok"
            except _Timeout:
                verdicts[name][mode] = "slow"
            except Exception:           # noqa
                verdicts[name][mode] = "error"
            finally:
                signal.setitimer(signal.ITIMER_REAL, 0)
    with open(out_path, "wb") as handle:
        pickle.dump(verdicts, handle)


def worker(root, scenario_path, out_path):
    root = os.path.abspath(root)
    sys.path.insert(0, root)
    work_dir = tempfile.mkdtemp(prefix="c10_worker_")
    os.makedirs(os.path.join(work_dir, "outputs"))
    os.chdir(work_dir)
    import tad
    import conditionalrewards as driver
    assert os.path.abspath(tad.__file__).startswith(root), tad.__file__
    assert os.path.abspath(driver.__file__).startswith(root), driver.__file__
    with open(scenario_path, "rb") as handle:
        scenarios = pickle.load(handle)
    signal.signal(signal.SIGALRM, _alarm)

    out = {"solve": {}, "violations": [], "timeouts": [], "malformed": {}, "nodes": [],
           "driver": {}}
    for name, game, histories in scenarios["solve"]:
        signal.alarm(SOLVE_TIMEOUT)
        try:
            records, violations = worker_solve(tad, name, game, histories)
            out["solve"][name] = records
            out["violations"].extend(violations)
        except _Timeout:
            out["timeouts"].append(name)
        finally:
            signal.alarm(0)
    for name, game in scenarios["malformed"].items():
        before = repr(game)
        results = []
        for mode in (True, False, True):
            sgame = tad.StochasticGame(prune_states=mode, **game)
            results.append(outcome(sgame.solve))
        out["malformed"][name] = (results, repr(game) == before)
    for case in scenarios["nodes"]:
        out["nodes"].append(worker_nodes(tad, case))
    for batch_name, games_dict in scenarios["driver"].items():
        signal.alarm(20 * SOLVE_TIMEOUT)
        try:
            out["driver"][batch_name] = worker_driver(driver, batch_name, games_dict, work_dir)
            if not out["driver"][batch_name][2]:
                out["violations"].append("driver batch %s: input dictionary changed %s"
                                         % (batch_name, out["driver"][batch_name][4][:3]))
            out["driver"][batch_name] = out["driver"][batch_name][:4]
        except _Timeout:
            out["timeouts"].append("driver/" + batch_name)
        finally:
            signal.alarm(0)
    with open(out_path, "wb") as handle:
        pickle.dump(out, handle)


# --------------------------------------------------------------------------- #
# parent
# --------------------------------------------------------------------------- #

def run_worker(root, scenario_path, tmp, tag, kind="--worker"):
    out_path = os.path.join(tmp, tag + ".pkl")
    env = dict(os.environ, PYTHONDONTWRITEBYTECODE="1", PYTHONHASHSEED="0")
    proc = subprocess.run([sys.executable, os.path.abspath(__file__), kind, root,
                           scenario_path, out_path], env=env, capture_output=True, text=True)
    if proc.returncode != 0:
        print(proc.stdout[-3000:])
        print(proc.stderr[-3000:])
        print("FAIL (worker for %s tree crashed, return code %s)" % (tag, proc.returncode))
        sys.exit(1)
    with open(out_path, "rb") as handle:
        return pickle.load(handle)


def first_difference(a, b, path=""):
    if type(a) != type(b):
        return "%s: %r vs %r" % (path, a, b)
    if isinstance(a, dict):
        for key in sorted(set(a) | set(b), key=repr):
            if key not in a or key not in b:
                return "%s/%s: only in one tree" % (path, key)
            diff = first_difference(a[key], b[key], "%s/%s" % (path, key))
            if diff:
                return diff
        return None
    if isinstance(a, (list, tuple)):
        if len(a) != len(b):
            return "%s: lengths %d vs %d" % (path, len(a), len(b))
        for i, (x, y) in enumerate(zip(a, b)):
            diff = first_difference(x, y, "%s[%d]" % (path, i))
            if diff:
                return diff
        return None
    if a != b:
        return "%s: %r vs %r" % (path, str(a)[:300], str(b)[:300])
    return None


def main():
    if len(sys.argv) != 3:
        print(__doc__)
        sys.exit(2)
    patched, clean = sys.argv[1], sys.argv[2]
    tmp = tempfile.mkdtemp(prefix="c10_equiv_")
    scenario_path = os.path.join(tmp, "scenarios.pkl")
    games, files = candidate_games(clean)
    games_path = os.path.join(tmp, "games.pkl")
    with open(games_path, "wb") as handle:
        pickle.dump(games, handle)
    verdicts = run_worker(clean, games_path, tmp, "probe", kind="--probe")
    scenarios = build_scenarios(games, files, verdicts)
    with open(scenario_path, "wb") as handle:
        pickle.dump(scenarios, handle)
    out_patched = run_worker(patched, scenario_path, tmp, "patched")
    out_clean = run_worker(clean, scenario_path, tmp, "clean")

    failures = []
    for violation in out_patched["violations"][:10]:
        failures.append("property violated in the patched tree: " + violation)
    for violation in out_clean["violations"][:3]:
        print("note: property violated in the CLEAN tree: " + violation)
    skipped = set(out_patched["timeouts"]) | set(out_clean["timeouts"])
    if set(out_patched["timeouts"]) != set(out_clean["timeouts"]):
        failures.append("different scenarios timed out: %s vs %s"
                        % (out_patched["timeouts"], out_clean["timeouts"]))
    n_items = len(scenarios["solve"]) + len(scenarios["driver"])
    if len(skipped) > 0.02 * n_items:
        failures.append("too many scenarios timed out: %s" % sorted(skipped)[:10])
    for section in ("solve", "malformed", "nodes", "driver"):
        a, b = out_patched[section], out_clean[section]
        if isinstance(a, dict):
            a = {k: v for k, v in a.items() if k not in skipped and "driver/" + k not in skipped}
            b = {k: v for k, v in b.items() if k not in skipped and "driver/" + k not in skipped}
        diff = first_difference(a, b, section)
        if diff:
            failures.append("difference between the trees: " + diff)

    n_solves = sum(len(h) for recs in out_patched["solve"].values() for h in recs)
    n_errors = sum(1 for recs in out_patched["solve"].values() for h in recs for s in h
                   if s[2][0] == "error")
    print("games: %d (histories solved: %d solves, %d of them raising), malformed: %d, "
          "node cases: %d, driver batches: %d, timed out: %d"
          % (len(out_patched["solve"]), n_solves, n_errors, len(out_patched["malformed"]),
             len(out_patched["nodes"]), len(out_patched["driver"]), len(skipped)))
    if failures:
        for failure in failures:
            print(failure)
        print("FAIL")
        sys.exit(1)
    print("PASS")
    sys.exit(0)


if __name__ == "__main__":
    if len(sys.argv) > 1 and sys.argv[1] == "--worker":
        worker(sys.argv[2], sys.argv[3], sys.argv[4])
    elif len(sys.argv) > 1 and sys.argv[1] == "--probe":
        probe(sys.argv[2], sys.argv[3], sys.argv[4])
    else:
        main()
