#!/usr/bin/env python
"""Behavioural equivalence check of a patched tree against a clean export of HEAD.

usage: python equiv_test.py <path-to-patched-root> <path-to-clean-root>

Both trees are loaded in separate subprocesses (worker mode of this same file).
Every worker runs the same deterministic list of cases and prints one JSON
object {case id: repr of result or exception}.  The parent compares the two
objects, prints PASS and exits 0 when nothing differs, FAIL (exit 1) otherwise.

Cases (aimed at property C13: results do not depend on the presentation):
  * several hundred random games (cycles through probabilistic states, several
    finals, dead states, ties, zero rewards), each solved in both pruning modes
    and in three presentations: as generated, and two random re-presentations
    (state permutation fixing 0, shuffled transitions, injective action renaming);
  * the shipped input files that solve quickly, both pruning modes, plus the
    batch driver on the small ones;
  * malformed / boundary games (exception type and message are compared);
  * unit level: every public node method and every public Solver method on random
    node valuations with many ties, the mutated node state afterwards;
  * reverse_dfs.py: all public functions on random and boundary transition lists
    (including a 6000 long chain and out of range final states).
Every solve has a time budget (the clean tree does not converge on some
non-stopping games).  A case that ran out of budget on exactly one side is run
again on both sides with a ten times larger budget before it counts.
"""
import json
import os
import random
import subprocess
import sys

BUDGET = 0.15          # seconds per solve
N_RANDOM_GAMES = 260
N_UNIT_GAMES = 120
N_DFS_CASES = 150


# --------------------------------------------------------------------------
# deterministic case generation (shared by both workers)
# --------------------------------------------------------------------------
P1, P2, PR = "Player 1", "Player 2", "Probabilistic"
ACTIONS = ["alfa", "beta", "gamma", "delta", "eps", "zeta"]


def random_probabilities(rng, k):
    style = rng.randrange(4)
    if k == 1:
        return [rng.choice([1, 1.0])]
    if style == 0:      # equal split
        return [1 / k] * k
    if style == 1:      # coarse grid
        weights = [rng.randint(1, 4) for _ in range(k)]
        total = sum(weights)
        return [w / total for w in weights]
    if style == 2:      # tiny / near one
        small = rng.choice([0.01, 0.001, 0.05])
        rest = [small] * (k - 1)
        return [1 - sum(rest)] + rest
    weights = [rng.random() + 0.05 for _ in range(k)]
    total = sum(weights)
    return [w / total for w in weights]


def random_game(rng):
    n = rng.choice([2, 3, 4, 5, 5, 6, 6, 7, 8, 9, 10, 12, 14])
    n_final = rng.choice([1, 1, 1, 2, 2, 3])
    n_dead = rng.choice([0, 0, 1, 1, 2])
    absorbing = list(range(1, n))
    rng.shuffle(absorbing)
    finals = sorted(absorbing[:min(n_final, max(1, n - 1))])
    dead = [s for s in absorbing[n_final:n_final + n_dead] if s not in finals]
    if rng.random() < 0.03:
        finals = sorted(set(finals + [0]))
    players, transitions, rewards = [], [], []
    reward_pool = rng.choice([[0, 1], [0, 1, 2, 3], [0, 5, 10], [1], [0, 1, 2, 5, 7, 10, 100]])
    for s in range(n):
        if s in finals or s in dead:
            kind = rng.choice([PR, PR, PR, P1, P2])
            players.append(kind)
            transitions.append([(1, s)] if kind == PR else [(rng.choice(ACTIONS), s)])
            rewards.append(0 if rng.random() < 0.98 else rng.choice(reward_pool))
            continue
        kind = rng.choice([P1, P1, P2, PR, PR, PR])
        players.append(kind)
        rewards.append(rng.choice(reward_pool))
        k = rng.choice([1, 2, 2, 3, 3, 4])
        succ = []
        # at least one forward successor makes most games stopping
        forward = [t for t in range(n) if t > s] or [rng.choice(finals)]
        succ.append(rng.choice(forward))
        # cycles mostly go through probabilistic states: a player state gets
        # backward successors only now and then (those games often do not stop)
        only_forward = kind != PR and rng.random() < 0.9
        while len(succ) < k:
            succ.append(rng.choice(forward) if only_forward else rng.randrange(n))
        if rng.random() < 0.7:
            succ = list(dict.fromkeys(succ))
        rng.shuffle(succ)
        if kind == PR:
            probs = random_probabilities(rng, len(succ))
            transitions.append(list(zip(probs, succ)))
        else:
            names = rng.sample(ACTIONS, len(succ))
            if rng.random() < 0.04 and len(names) > 1:
                names[1] = names[0]          # duplicated action name (boundary)
            transitions.append(list(zip(names, succ)))
    return {"rewards": rewards, "players": players,
            "transition_list": transitions, "final_states": finals}


def represent(game, rng):
    """Another presentation of the same game: permutation fixing state 0,
    shuffled transitions, injective renaming of the actions."""
    n = len(game["players"])
    perm = list(range(1, n))
    rng.shuffle(perm)
    new_of_old = [0] + perm
    renaming = dict(zip(ACTIONS, rng.sample(["a%d" % i for i in range(10)] + ACTIONS, len(ACTIONS))))
    players = [None] * n
    rewards = [None] * n
    transitions = [None] * n
    for old in range(n):
        new = new_of_old[old]
        players[new] = game["players"][old]
        rewards[new] = game["rewards"][old]
        trans = []
        for label, target in game["transition_list"][old]:
            if game["players"][old] != PR:
                label = renaming[label]
            trans.append((label, new_of_old[target]))
        rng.shuffle(trans)
        transitions[new] = trans
    finals = [new_of_old[f] for f in game["final_states"]]
    rng.shuffle(finals)
    return {"rewards": rewards, "players": players,
            "transition_list": transitions, "final_states": finals}


def malformed_games():
    base = {"rewards": [0, 1, 0], "players": [P1, PR, PR],
            "transition_list": [[("a", 1), ("b", 2)], [(0.5, 2), (0.5, 1)], [(1, 2)]],
            "final_states": [2]}

    def variant(**changes):
        game = {k: (list(v) if isinstance(v, list) else v) for k, v in base.items()}
        game.update(changes)
        return game
    yield "ok", variant()
    yield "short_rewards", variant(rewards=[0, 1])
    yield "long_rewards", variant(rewards=[0, 1, 2, 3])
    yield "short_transitions", variant(transition_list=[[("a", 1)], [(1, 2)]])
    yield "negative_reward", variant(rewards=[0, -1, 0])
    yield "final_too_big", variant(final_states=[3])
    yield "final_negative", variant(final_states=[-1])
    yield "no_finals", variant(final_states=[])
    yield "unknown_player", variant(players=[P1, "Player 3", PR])
    yield "players_short", variant(players=[P1, PR])
    yield "empty_transition", variant(transition_list=[[("a", 1)], [], [(1, 2)]])
    yield "first_empty", variant(transition_list=[[], [(1, 2)], [(1, 2)]])
    yield "not_a_list", variant(transition_list=[(("a", 1),), [(1, 2)], [(1, 2)]])
    yield "not_a_tuple", variant(transition_list=[[["a", 1]], [(1, 2)], [(1, 2)]])
    yield "long_tuple", variant(transition_list=[[("a", 1, 2)], [(1, 2)], [(1, 2)]])
    yield "action_not_str", variant(transition_list=[[(1, 1)], [(1, 2)], [(1, 2)]])
    yield "prob_not_number", variant(transition_list=[[("a", 1)], [("x", 2)], [(1, 2)]])
    yield "target_not_int", variant(transition_list=[[("a", 1.0)], [(1, 2)], [(1, 2)]])
    yield "target_out_of_range", variant(transition_list=[[("a", 3)], [(1, 2)], [(1, 2)]])
    yield "target_negative", variant(transition_list=[[("a", -1)], [(1, 2)], [(1, 2)]])
    yield "initial_cannot_reach", variant(
        transition_list=[[("a", 0), ("b", 1)], [(1, 1)], [(1, 2)]])
    yield "initial_is_final", variant(final_states=[0])
    yield "all_final", variant(final_states=[0, 1, 2])
    yield "repeated_final", variant(final_states=[2, 2])
    yield "single_state", {"rewards": [3], "players": [PR],
                           "transition_list": [[(1, 0)]], "final_states": [0]}
    yield "single_state_p1", {"rewards": [0], "players": [P1],
                              "transition_list": [[("a", 0)]], "final_states": [0]}
    yield "two_state_p2", {"rewards": [2, 0], "players": [P2, PR],
                           "transition_list": [[("a", 1), ("b", 1)], [(1, 1)]],
                           "final_states": [1]}
    yield "dead_adjacent", {
        "rewards": [1, 0, 0, 0, 0], "players": [PR, PR, PR, PR, PR],
        "transition_list": [[(0.25, 1), (0.25, 2), (0.25, 3), (0.25, 4)],
                            [(1, 1)], [(1, 2)], [(1, 3)], [(1, 4)]],
        "final_states": [4]}
    yield "dead_interleaved", {
        "rewards": [1, 0, 0, 0, 0], "players": [PR, PR, PR, PR, PR],
        "transition_list": [[(0.25, 1), (0.25, 4), (0.25, 2), (0.25, 3)],
                            [(1, 1)], [(1, 2)], [(1, 3)], [(1, 4)]],
        "final_states": [4]}
    yield "p1_dead_choices", {
        "rewards": [1, 0, 0, 0, 5], "players": [P1, PR, PR, P1, PR],
        "transition_list": [[("a", 1), ("b", 2), ("c", 3), ("d", 4)],
                            [(1, 1)], [(1, 2)], [("x", 3)], [(0.5, 2), (0.5, 1)]],
        "final_states": [2]}
    yield "p2_tie", {
        "rewards": [0, 3, 3, 0], "players": [P2, PR, PR, PR],
        "transition_list": [[("l", 1), ("r", 2)], [(1, 3)], [(1, 3)], [(1, 3)]],
        "final_states": [3]}


# --------------------------------------------------------------------------
# worker
# --------------------------------------------------------------------------
class OutOfBudget(BaseException):
    pass


def worker(root, budget, only):
    import signal
    import copy
    import logging
    os.chdir(root)
    sys.path.insert(0, root)
    import tad
    import reverse_dfs as rdfs
    import conditionalrewards
    logging.disable(logging.CRITICAL)

    def on_alarm(signum, frame):
        raise OutOfBudget()
    signal.signal(signal.SIGALRM, on_alarm)

    results = {}

    def wanted(case_id):
        return only is None or case_id in only

    def guarded(case_id, func, seconds=None):
        if not wanted(case_id):
            return
        signal.setitimer(signal.ITIMER_REAL, seconds or budget)
        try:
            try:
                outcome = "OK " + repr(func())
            finally:
                signal.setitimer(signal.ITIMER_REAL, 0)
        except OutOfBudget:
            outcome = "TIMEOUT"
        except Exception as exc:     # noqa: BLE001 - type and message are the observation
            outcome = "EXC %s: %s" % (type(exc).__name__, exc)
        results[case_id] = outcome

    def solve_case(game, prune):
        game = copy.deepcopy(game)
        sgame = tad.StochasticGame(prune_states=prune, **game)
        counted = sgame.count_transitions()
        solved = sgame.solve()
        return counted, solved, game["transition_list"], game["final_states"]

    # ---- random games, three presentations, both pruning modes
    rng = random.Random(20261004)
    for g in range(N_RANDOM_GAMES):
        game = random_game(rng)
        presentations = [game, represent(game, rng), represent(game, rng)]
        for p, shown in enumerate(presentations):
            for prune in (True, False):
                guarded("rand/%d/%d/%s" % (g, p, prune),
                        lambda shown=shown, prune=prune: solve_case(shown, prune))

    # ---- malformed and boundary games
    for name, game in malformed_games():
        for prune in (True, False):
            guarded("edge/%s/%s" % (name, prune),
                    lambda game=game, prune=prune: solve_case(game, prune))

    # ---- shipped inputs
    quick_inputs = ["paper_games.py", "example_games.py", "example_17_08.py",
                    "manual_1_game_a.py", "manual_arrow_bottom.py",
                    "robot_1_w1_l2_r6_rb10_lb5_tb10_lt0.py",
                    "robot_1_w2_l1_r6_rb10_lb5_tb10_lt0.py",
                    "robot_1_w2_l2_r6_rb10_lb5_tb10_lt0.py",
                    "robot_999132423_w3_l3_r6_rb1_lb2_tb10_lt30.py",
                    "robot_999132423_w3_l3_r6_rb1_lb2_tb10_lt30_force_down.py",
                    "robot_manual_0_w4_l4_r6_rb10_lb5_tb10_lt30.py",
                    "robot_47_w5_l5_r6_rb10_lb10_tb10_lt30.py",
                    "robot_47_w5_l5_r6_rb10_lb10_tb10_lt30_force_down.py"]
    for file_name in quick_inputs:
        path = os.path.join(root, "inputs", file_name)
        if not os.path.exists(path):
            continue
        games = conditionalrewards.read_dict_from_file(path)
        for name, game in games.items():
            game = {k: v for k, v in game.items() if k != "prune_states"}
            for prune in (True, False):
                guarded("input/%s/%s/%s" % (file_name, name, prune),
                        lambda game=game, prune=prune: solve_case(game, prune),
                        seconds=budget * (20 if prune else 2))

    def driver(path):
        games = conditionalrewards.read_dict_from_file(path)
        report = conditionalrewards.run_games(games)
        for entry in report.values():
            entry.pop("total_time", None)
        return report
    for file_name in ("paper_games.py", "example_games.py"):
        path = os.path.join(root, "inputs", file_name)
        if os.path.exists(path):
            guarded("driver/" + file_name, lambda path=path: driver(path), seconds=budget * 40)

    # ---- unit level: node methods and solver methods on random valuations
    def snapshot(state_list):
        return [(s.idx, s.player, s.next_states, s.reach_probability, s.expected_rewards,
                 s.expected_rewards_min_reach, s.expected_reach_min_rewards, s.is_final_node)
                for s in state_list]

    def fresh(game, valuation):
        sgame = tad.StochasticGame(prune_states=True, **copy.deepcopy(game))
        sgame.check_game()
        state_list = sgame.init_states()
        for state, (reach, rew, rew_min_reach, reach_min_rew) in zip(state_list, valuation):
            state.reach_probability = reach
            state.expected_rewards = rew
            state.expected_rewards_min_reach = rew_min_reach
            state.expected_reach_min_rewards = reach_min_rew
        return state_list

    rng = random.Random(777)
    reach_grid = [0, 0.0, 1, 1.0, 0.5, 0.5, 0.25, 0.4999996, 0.5000004, 1e-9, 0.9999999]
    reward_grid = [0, 0.0, 1, 1.0, 2.5, 2.5, 2.4999996, 2.5000004, 7, 1e-7, 10 ** 25]
    for g in range(N_UNIT_GAMES):
        game = random_game(rng)
        n = len(game["players"])
        valuation = [(rng.choice(reach_grid), rng.choice(reward_grid),
                      rng.choice(reward_grid), rng.choice(reach_grid)) for _ in range(n)]

        def node_calls(game=game, valuation=valuation, seed=g):
            local = random.Random(seed)
            out = []
            state_list = fresh(game, valuation)
            for state in state_list:
                out.append(state.value_iteration_reach(state_list))
                out.append(tuple(state.value_iteration_rewards(state_list)))
                for floor in (6, 2, 0):
                    for method in ("get_best_strategies_reachability",
                                   "get_best_strategies_total_rewards",
                                   "get_worst_strategies_reachability",
                                   "get_worst_strategies_total_rewards"):
                        if hasattr(state, method):
                            out.append(getattr(state, method)(state_list, floor))
            out.append(snapshot(state_list))
            for state in state_list:
                if hasattr(state, "prune_paths"):
                    state.prune_paths(state_list)
            out.append(snapshot(state_list))
            for state in state_list:
                out.append(tuple(state.value_iteration_rewards(state_list)))
                out.append(state.value_iteration_reach(state_list))
            state_list = fresh(game, valuation)
            for state in state_list:
                if state.player == P1:
                    keep = local.sample(ACTIONS, local.randint(0, 3))
                    state.prune_paths_reachability(keep)
                    out.append(tuple(state.value_iteration_rewards(state_list)))
                    out.append(state.get_best_strategies_total_rewards(state_list, 6))
                if state.player != P2 and len(state.next_states) > 1:
                    victim = local.choice(state.next_states)
                    if victim[0] != 1:
                        state.remove_path(victim)
            out.append(snapshot(state_list))
            return out
        guarded("unit/node/%d" % g, node_calls)

        def solver_calls(game=game, valuation=valuation, threshold=rng.choice([1e-6, 1e-6, 1e-3, 0.1, 1, 2])):
            out = []
            for prune in (True, False):
                state_list = tad.StochasticGame(prune_states=prune, **copy.deepcopy(game)).init_states()
                solver = tad.Solver(state_list=state_list, threshold=threshold)
                try:
                    out.append(solver.solve_reachability(game["transition_list"], game["final_states"], prune))
                except ValueError as exc:
                    out.append(str(exc))
                    continue
                out.append(snapshot(state_list))
                strategies = out[-2][0]
                solver.prune_reachability(strategies)
                out.append(snapshot(state_list))
                if prune:
                    solver.prune_stochastich_game()
                    out.append(snapshot(state_list))
                out.append(solver.solve_total_rewards())
                out.append(snapshot(state_list))
            # pruning steps one by one on an arbitrary valuation
            state_list = fresh(game, valuation)
            solver = tad.Solver(state_list, threshold)
            solver.prune_paths()
            out.append(snapshot(state_list))
            solver.prune_states()
            out.append(snapshot(state_list))
            states = rdfs.reverse_dfs(game["transition_list"], game["final_states"])
            state_list = fresh(game, valuation)
            solver = tad.Solver(state_list, threshold)
            try:
                out.append(solver.value_iteration_reachability(states, True))
            except ValueError as exc:
                out.append(str(exc))
            out.append(snapshot(state_list))
            return out
        guarded("unit/solver/%d" % g, solver_calls, seconds=budget * 4)

    # ---- reverse_dfs.py
    rng = random.Random(4242)

    def dfs_calls(transition_list, finals):
        out = []
        core = rdfs.reverse_transition_list_core(transition_list)
        out.append(core)
        as_dict = rdfs.list_of_tuples_to_dict_of_lists(core)
        out.append((type(as_dict).__name__, list(as_dict.items())))
        completed = rdfs.add_missing_states(dict(as_dict), len(transition_list))
        out.append(list(completed.items()))
        reversed_transitions = rdfs.reverse_transition_list(transition_list)
        out.append((type(reversed_transitions).__name__, list(reversed_transitions.items())))
        visited = set()
        for final in finals:
            before = len(visited)
            returned = rdfs.reverse_dfs_from(final, reversed_transitions, visited)
            out.append((returned, sorted(visited), before))
        visited = {0}
        rdfs.reverse_dfs_from(0, reversed_transitions, visited)
        out.append(sorted(visited))
        out.append(rdfs.reverse_dfs(transition_list, finals))
        out.append((transition_list, finals))
        return out

    for c in range(N_DFS_CASES):
        n = rng.choice([1, 2, 3, 5, 8, 13, 30])
        transition_list = [[(rng.choice(ACTIONS + [0.5, 1]), rng.randrange(n))
                            for _ in range(rng.choice([0, 1, 1, 2, 3]))] for _ in range(n)]
        finals = [rng.randrange(n) for _ in range(rng.choice([0, 1, 1, 2, 3]))]
        guarded("dfs/rand/%d" % c,
                lambda t=transition_list, f=finals: dfs_calls(t, f))
    chain = [[("a", i + 1)] for i in range(5999)] + [[("a", 5999)]]
    guarded("dfs/chain", lambda: rdfs.reverse_dfs(chain, [5999])[:5] + [len(rdfs.reverse_dfs(chain, [5999]))],
            seconds=5)
    small = [[("a", 1)], [(1, 1)], [(1, 0)]]
    for name, finals in [("out_of_range", [3]), ("negative", [-1]), ("float", [1.0]),
                         ("bool", [True]), ("unhashable", [[1]]), ("tuple", (1,)),
                         ("mixed", [1, 7]), ("none", [None]), ("empty", [])]:
        guarded("dfs/finals/" + name, lambda finals=finals: dfs_calls(small, finals))
    guarded("dfs/empty", lambda: dfs_calls([], []))
    guarded("dfs/empty_with_final", lambda: dfs_calls([], [0]))
    guarded("dfs/tuples", lambda: rdfs.list_of_tuples_to_dict_of_lists(
        [(1, 99), (1, 98), (2, 97), (2, 96), (3, 95), (1, 90), ("x", None), (1.0, 5)]))
    guarded("dfs/missing", lambda: list(rdfs.add_missing_states({5: [1], 1: [2]}, 4).items()))

    json.dump(results, sys.stdout)


# --------------------------------------------------------------------------
# parent
# --------------------------------------------------------------------------
def run_workers(roots, budget, only=None):
    procs = []
    for root in roots:
        cmd = [sys.executable, os.path.abspath(__file__), "--worker", os.path.abspath(root), str(budget)]
        if only is not None:
            cmd.append(json.dumps(sorted(only)))
        env = dict(os.environ, PYTHONDONTWRITEBYTECODE="1", PYTHONHASHSEED="0")
        procs.append(subprocess.Popen(cmd, stdout=subprocess.PIPE, stderr=subprocess.PIPE,
                                      text=True, env=env))
    outputs = []
    for root, proc in zip(roots, procs):
        out, err = proc.communicate()
        if proc.returncode != 0:
            print("worker for %s crashed:\n%s" % (root, err[-3000:]))
            print("FAIL")
            sys.exit(1)
        outputs.append(json.loads(out))
    return outputs


def main():
    if len(sys.argv) >= 3 and sys.argv[1] == "--worker":
        only = set(json.loads(sys.argv[4])) if len(sys.argv) > 4 else None
        worker(sys.argv[2], float(sys.argv[3]), only)
        return
    if len(sys.argv) != 3:
        print(__doc__)
        sys.exit(2)
    patched_root, clean_root = sys.argv[1], sys.argv[2]
    patched, clean = run_workers([patched_root, clean_root], BUDGET)
    differing = [k for k in sorted(set(patched) | set(clean)) if patched.get(k) != clean.get(k)]
    retry = [k for k in differing if "TIMEOUT" in (patched.get(k), clean.get(k))]
    if retry:
        patched2, clean2 = run_workers([patched_root, clean_root], BUDGET * 10, only=set(retry))
        patched.update(patched2)
        clean.update(clean2)
        differing = [k for k in sorted(set(patched) | set(clean)) if patched.get(k) != clean.get(k)]
    kinds = {}
    for key, value in clean.items():
        kinds[value.split(" ", 1)[0]] = kinds.get(value.split(" ", 1)[0], 0) + 1
    print("cases: %d  (clean tree: %s)  retried after one-sided timeout: %d"
          % (len(clean), ", ".join("%s=%d" % kv for kv in sorted(kinds.items())), len(retry)))
    if differing:
        for key in differing[:10]:
            print("DIFF", key)
            print("   patched:", str(patched.get(key))[:600])
            print("   clean  :", str(clean.get(key))[:600])
        print("%d differing cases" % len(differing))
        print("FAIL")
        sys.exit(1)
    print("PASS")


if __name__ == "__main__":
    main()
