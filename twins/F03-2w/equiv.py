#!/usr/bin/env python
"""Differential test for property C03 (conditioning removes every dead branch,
and only dead branches).

usage: python equiv.py <clean_repo_dir> <patched_repo_dir>

Both trees are loaded in their own subprocess (module names collide); each
subprocess runs the same deterministic battery of cases and prints one line
per case (the repr of what was observed).  The parent compares the two
transcripts line by line, prints SAME / exits 0 when nothing differs, prints
the first difference / exits 1 otherwise.
"""
import os
import subprocess
import sys

CAP = 4000           # deterministic cap on logging.debug calls per solve


# --------------------------------------------------------------------------- #
# worker: runs inside one tree
# --------------------------------------------------------------------------- #
class Cutoff(Exception):
    pass


class LogShim:
    """Replaces the `logging` name inside tad: counts debug() calls so that a
    value iteration that does not converge is cut off deterministically."""
    DEBUG = 10
    INFO = 20

    def __init__(self):
        self.calls = 0

    def reset(self):
        self.calls = 0

    def debug(self, *_a, **_k):
        self.calls += 1
        if self.calls > CAP:
            raise Cutoff()

    def info(self, *_a, **_k):
        pass

    warning = error = info

    def getLogger(self, *_a):
        return self

    def getEffectiveLevel(self):
        return self.INFO


def worker(tree):
    import collections
    import random
    tree = os.path.abspath(tree)
    os.chdir(tree)
    sys.path.insert(0, tree)
    import tad
    assert os.path.abspath(tad.__file__).startswith(tree), tad.__file__
    shim = LogShim()
    tad.logging = shim

    P1, P2, PR = tad.PLAYER_1, tad.PLAYER_2, tad.PROBABILISTIC
    KINDS = [P1, P2, PR]
    out = []

    def emit(tag, value):
        out.append(f"{tag} :: {value}")

    def guarded(fn):
        shim.reset()
        try:
            return ("ok", fn())
        except Cutoff:
            return ("cutoff",)
        except RecursionError:
            return ("recursion",)
        except Exception as exc:            # type + message are behaviour
            return ("exc", type(exc).__name__, str(exc))

    def snapshot(state_list):
        return [(type(s).__name__, s.idx, [(type(t).__name__, tuple(t)) for t in s.next_states],
                 s.reach_probability, s.expected_rewards, s.expected_rewards_min_reach,
                 s.expected_reach_min_rewards) for s in state_list]

    # ------------------------------------------------------------------ #
    # random well-formed games
    # ------------------------------------------------------------------ #
    def random_probabilities(rng, k):
        style = rng.randrange(4)
        if k == 1:
            return [rng.choice([1, 1.0])]
        if style == 0:                         # equal shares -> exact ties
            return [1 / k] * k
        if style == 1:                         # dyadic
            weights = [rng.choice([1, 1, 2, 4]) for _ in range(k)]
        elif style == 2:                       # small integers
            weights = [rng.randint(1, 5) for _ in range(k)]
        else:                                  # arbitrary floats
            weights = [rng.random() + 0.01 for _ in range(k)]
        total = sum(weights)
        return [w / total for w in weights]

    def random_game(rng, n=None, dead_bias=0.35):
        n = n or rng.randint(2, 9)
        players = [rng.choice(KINDS) for _ in range(n)]
        n_final = rng.randint(1, min(3, n - 1))
        finals = rng.sample(range(1, n), n_final)
        sinks = [s for s in range(1, n) if s not in finals and rng.random() < dead_bias]
        rewards = [rng.choice([0, 0, 1, 1, 2, 3, 5, 0.5, 2.25]) for _ in range(n)]
        for s in finals + sinks:                   # absorbing states rarely pay: solves converge
            if rng.random() < (0.93 if s in finals else 0.6):
                rewards[s] = 0
        transitions = []
        for s in range(n):
            if s in finals or s in sinks:
                if players[s] == PR:
                    transitions.append([(rng.choice([1, 1.0]), s)])
                else:
                    transitions.append([(rng.choice("abx"), s)])
                continue
            k = rng.randint(1, 5)
            pool = list(range(n))
            if sinks and rng.random() < 0.8:          # many dead successors
                pool += sinks * 3
            if rng.random() < 0.7:
                pool += finals * 3
            targets = [rng.choice(pool) for _ in range(k)]   # parallel edges allowed
            if players[s] == PR:
                transitions.append(list(zip(random_probabilities(rng, k), targets)))
            else:
                labels = [rng.choice(["a", "b", "c", "alfa", "beta", "x"]) for _ in range(k)]
                if rng.random() < 0.6:
                    labels = [f"{lab}{i}" for i, lab in enumerate(labels)]
                transitions.append(list(zip(labels, targets)))
        return rewards, players, transitions, finals

    def stepwise(rewards, players, transitions, finals, prune):
        """Run the solver step by step and record the transition lists."""
        game = tad.StochasticGame(rewards, players, transitions, finals, prune)
        game.check_game()
        state_list = game.init_states()
        solver = tad.Solver(threshold=10 ** (-6), state_list=state_list)
        strategies, n_reach = solver.solve_reachability(transitions, finals, prune)
        record = [("reach", strategies, n_reach, snapshot(state_list))]
        lists_before = [s.next_states for s in state_list]
        solver.prune_reachability(strategies)
        record.append(("prune_reachability", snapshot(state_list)))
        if prune:
            solver.prune_paths()
            record.append(("prune_paths", snapshot(state_list)))
            solver.prune_states()
            record.append(("prune_states", snapshot(state_list)))
        record.append(("same list objects",
                       [a is s.next_states for a, s in zip(lists_before, state_list)]))
        record.append(("sum of probabilities",
                       [sum(t[0] for t in s.next_states) if s.player == PR else None
                        for s in state_list]))
        shim.reset()
        try:
            strategies_rew, n_rew = solver.solve_total_rewards()
        except Cutoff:
            record.append(("rewards cut off",))
        else:
            record.append(("rewards", strategies_rew, n_rew, snapshot(state_list)))
        return record

    rng = random.Random(20240603)
    for case in range(800):
        rewards, players, transitions, finals = random_game(rng)
        frozen = repr(transitions)
        for prune in (True, False):
            game = tad.StochasticGame(rewards, players, transitions, finals, prune)
            emit(f"solve {case} {prune}", guarded(game.solve))
            emit(f"count {case} {prune}", guarded(game.count_transitions))
            emit(f"steps {case} {prune}",
                 guarded(lambda: stepwise(rewards, players, transitions, finals, prune)))
            emit(f"caller list intact {case} {prune}", repr(transitions) == frozen)

    # larger games, fewer of them
    rng = random.Random(77)
    for case in range(30):
        rewards, players, transitions, finals = random_game(rng, n=rng.randint(12, 30),
                                                            dead_bias=0.3)
        for prune in (True, False):
            emit(f"big steps {case} {prune}",
                 guarded(lambda: stepwise(rewards, players, transitions, finals, prune)))

    # ------------------------------------------------------------------ #
    # arbitrary reachability outcomes on single nodes: dead successors in
    # every position (first, last, adjacent, separated, all, none)
    # ------------------------------------------------------------------ #
    Transition = collections.namedtuple("Transition", "label target")

    class Stub:
        def __init__(self, p):
            self.reach_probability = p

    rng = random.Random(5)
    LIVE = [1, 1.0, 0.5, 0.25, 1e-12, 5e-324, True, float("nan"), -0.5, 2]
    DEAD = [0, 0.0, -0.0, False]
    for case in range(1500):
        n = rng.randint(1, 7)
        k = rng.randint(1, 8)
        mask = [rng.random() < rng.choice([0.2, 0.5, 0.8, 1.0, 0.0]) for _ in range(n)]
        stubs = [Stub(rng.choice(DEAD) if dead else rng.choice(LIVE)) for dead in mask]
        targets = [rng.randrange(n) for _ in range(k)]
        probs = random_probabilities(rng, k)
        if rng.random() < 0.2:
            probs = [rng.choice([0, 1, 0.5, 0.0, True]) for _ in range(k)]   # not normalised
        use_nt = rng.random() < 0.25
        make = (lambda a, b: Transition(a, b)) if use_nt else (lambda a, b: (a, b))
        prob_node = tad.ProbabilisticNode(PR, 0, 1, [make(p, t) for p, t in zip(probs, targets)],
                                          n, False)
        one_node = tad.PlayerOne(P1, 0, 1, [make(f"a{i % 3}", t) for i, t in enumerate(targets)],
                                 n, False)
        for name, node in (("prob", prob_node), ("one", one_node)):
            before = node.next_states
            elements = list(before)
            res = guarded(lambda: node.prune_paths(stubs))
            emit(f"node prune {case} {name}",
                 (res, [(type(t).__name__, tuple(t)) for t in node.next_states],
                  before is node.next_states,
                  [any(t is e for e in elements) for t in node.next_states],
                  [(type(t).__name__, tuple(t)) for t in before]))
            res = guarded(lambda: node.prune_paths(stubs))           # idempotence
            emit(f"node prune twice {case} {name}", (res, repr(node.next_states)))
        # short state list -> IndexError at the same place
        res = guarded(lambda: tad.ProbabilisticNode(
            PR, 0, 1, [(p, t) for p, t in zip(probs, targets)], n, False).prune_paths(stubs[:n // 2]))
        emit(f"node prune short {case}", res)

    # remove_path -------------------------------------------------------- #
    rng = random.Random(6)
    for case in range(900):
        n = rng.randint(1, 6)
        k = rng.randint(1, 6)
        targets = [rng.randrange(n) for _ in range(k)]
        probs = random_probabilities(rng, k)
        if rng.random() < 0.3:
            probs = [rng.choice([0, 1, 0.5, 0.25, 1.0, True]) for _ in range(k)]
        trans = list(zip(probs, targets))
        node = tad.ProbabilisticNode(PR, 0, 1, trans, n, False)
        one = tad.PlayerOne(P1, 0, 1, [(f"a{i % 2}", t) for i, t in enumerate(targets)], n, False)
        choice = rng.random()
        if choice < 0.6:
            victim = rng.choice(trans)
        elif choice < 0.7:
            victim = (0.123, 0)                       # absent
        elif choice < 0.8:
            victim = list(rng.choice(trans))          # list never equals a tuple
        elif choice < 0.9:
            victim = Transition(*rng.choice(trans))
        else:
            victim = (1, targets[0])
        before = node.next_states
        res = guarded(lambda: node.remove_path(victim))
        emit(f"remove prob {case}", (res, repr(node.next_states), before is node.next_states,
                                     repr(before), repr(trans)))
        victim_one = rng.choice(one.next_states) if rng.random() < 0.8 else ("zz", 0)
        before = one.next_states
        res = guarded(lambda: one.remove_path(victim_one))
        emit(f"remove one {case}", (res, repr(one.next_states), before is one.next_states))

    # prune_paths_reachability ------------------------------------------- #
    rng = random.Random(8)
    for case in range(400):
        n = rng.randint(1, 6)
        k = rng.randint(1, 6)
        labels = [rng.choice(["a", "b", "c", "a"]) for _ in range(k)]
        use_nt = rng.random() < 0.3
        trans = [(Transition(l, rng.randrange(n)) if use_nt else (l, rng.randrange(n)))
                 for l in labels]
        node = tad.PlayerOne(P1, 0, 1, trans, n, False)
        best = rng.choice([["a"], ["b", "a"], [], None, "ab", ("c",), {"a"}, ["a", "a"], 5,
                           {"a": 1}])
        res = guarded(lambda: node.prune_paths_reachability(best))
        emit(f"keep best {case}", (res, [(type(t).__name__, tuple(t)) for t in node.next_states]))

    # ------------------------------------------------------------------ #
    # Solver level with hand-set reachability outcomes
    # ------------------------------------------------------------------ #
    rng = random.Random(9)
    for case in range(900):
        rewards, players, transitions, finals = random_game(rng, dead_bias=0.3)
        n = len(players)
        state_list = guarded(lambda: tad.StochasticGame(
            rewards, players, transitions, finals).init_states())
        if state_list[0] != "ok":
            emit(f"solver init {case}", state_list)
            continue
        state_list = state_list[1]
        for s in state_list:
            r = rng.random()
            s.reach_probability = (rng.choice(DEAD) if r < 0.4 else
                                   rng.choice([1, 0.5, 0.75, 1e-9, 0.3333333333333333]))
        solver = tad.Solver(state_list)
        mode = rng.randrange(6)
        strategies = solver._get_reachability_strategies()
        if mode == 1:
            strategies = strategies[:rng.randrange(n)]           # too short
        elif mode == 2:
            strategies = [None] * n                               # nothing to look in
        elif mode == 3:
            strategies = strategies + [["a"]] * 3                 # too long
        elif mode == 4:
            strategies = [[]] * n                                 # keeps nothing
        res = guarded(lambda: solver.prune_reachability(strategies))
        emit(f"solver prune_reachability {case} {mode}", (res, snapshot(state_list)))
        if rng.random() < 0.3:                                    # idx differs from position
            rng.shuffle(solver.state_list)
        if rng.random() < 0.5:
            res = guarded(solver.prune_paths)
            emit(f"solver prune_paths {case}", (res, snapshot(solver.state_list)))
            res = guarded(solver.prune_states)
            emit(f"solver prune_states {case}", (res, snapshot(solver.state_list)))
        elif rng.random() < 0.5:
            res = guarded(solver.prune_states)                    # without prune_paths
            emit(f"solver prune_states only {case}", (res, snapshot(solver.state_list)))
        else:
            res = guarded(solver.prune_stochastich_game)
            emit(f"solver prune game {case}", (res, snapshot(solver.state_list)))
        lists = [s.next_states for s in solver.state_list]
        res = guarded(solver.prune_stochastich_game)              # second round: fixed point
        emit(f"solver prune again {case}", (res, snapshot(solver.state_list),
                                            [a is s.next_states
                                             for a, s in zip(lists, solver.state_list)]))
        res = guarded(solver.solve_total_rewards)
        emit(f"solver rewards {case}", (res, snapshot(solver.state_list)))

    # empty / degenerate solvers
    for label, fn in [
        ("empty prune_paths", lambda: tad.Solver([]).prune_paths()),
        ("empty prune_states", lambda: tad.Solver([]).prune_states()),
        ("empty prune_reachability", lambda: tad.Solver([]).prune_reachability([])),
        ("empty prune game", lambda: tad.Solver([]).prune_stochastich_game()),
    ]:
        emit(label, guarded(fn))

    # ------------------------------------------------------------------ #
    # malformed games: exception type + message
    # ------------------------------------------------------------------ #
    base = ([1, 2, 3, 0], [P1, PR, P2, PR],
            [[("a", 1), ("b", 3)], [(0.5, 2), (0.25, 3), (0.25, 3)], [("x", 0), ("y", 3)], [(1, 3)]],
            [2])
    dead3 = ([1, 1, 1, 1, 1], [PR, PR, PR, P1, P2],
             [[(0.2, 1), (0.2, 2), (0.2, 1), (0.2, 3), (0.2, 2)], [(1, 1)], [(1, 2)],
              [("a", 1), ("b", 1), ("c", 2), ("d", 4)], [("x", 4)]], [2])

    def variant(**kw):
        rewards, players, transitions, finals = [list(x) if isinstance(x, list) else x for x in base]
        transitions = [list(t) for t in transitions]
        d = dict(rewards=rewards, players=players, transition_list=transitions,
                 final_states=finals)
        d.update(kw)
        return d

    malformed = [
        variant(), dict(zip(("rewards", "players", "transition_list", "final_states"), dead3)),
        variant(rewards=[1, 2, 3]), variant(rewards=[1, 2, 3, -1]), variant(rewards=[]),
        variant(players=[P1, PR, P2]), variant(players=[P1, PR, P2, "Player 3"]),
        variant(players=[]), variant(final_states=[]), variant(final_states=[4]),
        variant(final_states=[-1]), variant(final_states=[0]), variant(final_states=[0, 1, 2, 3]),
        variant(final_states=[2, 2]), variant(final_states=[3]), variant(final_states=[1]),
        variant(final_states=(2,)), variant(final_states=None), variant(final_states=["2"]),
        variant(transition_list=[[("a", 1)], [], [("x", 0)], [(1, 3)]]),
        variant(transition_list=[[("a", 1)], None, [("x", 0)], [(1, 3)]]),
        variant(transition_list=[[("a", 1)], ((1, 2),), [("x", 0)], [(1, 3)]]),
        variant(transition_list=[[("a", 1)], [[1, 2]], [("x", 0)], [(1, 3)]]),
        variant(transition_list=[[("a", 1)], [(1, 2, 3)], [("x", 0)], [(1, 3)]]),
        variant(transition_list=[[(1, 1)], [(1, 2)], [("x", 0)], [(1, 3)]]),
        variant(transition_list=[[("a", 1)], [("p", 2)], [("x", 0)], [(1, 3)]]),
        variant(transition_list=[[("a", 1.0)], [(1, 2)], [("x", 0)], [(1, 3)]]),
        variant(transition_list=[[("a", 4)], [(1, 2)], [("x", 0)], [(1, 3)]]),
        variant(transition_list=[[("a", -1)], [(1, 2)], [("x", 0)], [(1, 3)]]),
        variant(transition_list=[[("a", 1)], [(1, 2)], [("x", 0)]]),
        variant(transition_list=[[("a", 3), ("b", 3)], [(1, 2)], [("x", 0)], [(1, 3)]]),
        variant(transition_list=[[("a", 1)], [(0.5, 3), (0.5, 3)], [("x", 0)], [(1, 3)]]),
        variant(transition_list=[[("a", 1)], [(0, 2), (1, 3)], [("x", 0)], [(1, 3)]]),
        variant(transition_list=[[("a", 1)], [(0.7, 2), (0.7, 3)], [("x", 0)], [(1, 3)]]),
        variant(transition_list=[[("a", True)], [(True, 2)], [("x", False)], [(1, 3)]]),
    ]
    for i, kw in enumerate(malformed):
        for prune in (True, False):
            emit(f"malformed {i} {prune}",
                 guarded(lambda: tad.StochasticGame(prune_states=prune, **kw).solve()))
            emit(f"malformed count {i} {prune}",
                 guarded(lambda: tad.StochasticGame(prune_states=prune, **kw).count_transitions()))

    sys.stdout.write("\n".join(out) + "\n")


# --------------------------------------------------------------------------- #
# parent
# --------------------------------------------------------------------------- #
def start(tree):
    env = dict(os.environ, PYTHONHASHSEED="0", PYTHONDONTWRITEBYTECODE="1")
    return subprocess.Popen([sys.executable, os.path.abspath(__file__), "--worker", tree],
                            stdout=subprocess.PIPE, stderr=subprocess.PIPE, text=True, env=env)


def finish(proc):
    try:
        stdout, stderr = proc.communicate(timeout=115)
    except subprocess.TimeoutExpired:
        proc.kill()
        stdout, stderr = proc.communicate()
        return -9, [], "worker timed out\n" + stderr
    return proc.returncode, stdout.splitlines(), stderr


def main():
    if len(sys.argv) == 3 and sys.argv[1] == "--worker":
        worker(sys.argv[2])
        return 0
    if len(sys.argv) != 3:
        print(__doc__)
        return 2
    clean, patched = sys.argv[1], sys.argv[2]
    procs = [start(clean), start(patched)]          # both trees at the same time
    (rc_a, lines_a, err_a), (rc_b, lines_b, err_b) = [finish(p) for p in procs]
    if rc_a != 0 or rc_b != 0:
        print("DIFFERENT: a worker failed")
        print("clean   rc", rc_a, err_a[-2000:])
        print("patched rc", rc_b, err_b[-2000:])
        return 1
    for i, (a, b) in enumerate(zip(lines_a, lines_b)):
        if a != b:
            print(f"DIFFERENT at line {i}")
            print("clean  :", a[:3000])
            print("patched:", b[:3000])
            return 1
    if len(lines_a) != len(lines_b):
        print(f"DIFFERENT: transcript lengths {len(lines_a)} vs {len(lines_b)}")
        return 1
    if not lines_a:
        print("DIFFERENT: empty transcript")
        return 1
    print("SAME")
    return 0


if __name__ == "__main__":
    sys.exit(main())
