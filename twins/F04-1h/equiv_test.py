#!/usr/bin/env python
"""
Equivalence test for property C04 (reachability strategies list exactly the
value-optimal actions).

usage: python equiv_test.py <path-to-patched-root> <path-to-clean-root>

The two trees are loaded in two separate subprocesses (same module names).  Each
subprocess solves the same deterministic corpus of games and prints a JSON
document; the parent compares the two documents.

What is compared
  * StochasticGame.solve() - the complete 8-tuple (strategies, values as exact
    float reprs, iteration counts) or the error message - for several hundred
    random well-formed games (cycles, several finals, dead states, exact ties
    reached through different floating point sums, near-ties at the rounding
    boundary), pruning on and off;
  * run_games() on the same games in batches, everything but the wall-clock time;
  * the report written by save_results_to_file (wall-clock line masked);
  * the small input files shipped with the repository, through run_games();
  * direct calls of PlayerOne.get_best_strategies_reachability and
    PlayerTwo.get_worst_strategies_reachability on hand-made value vectors full of
    boundary values (0, 0.0, 1, 1+ulp, 0.1+0.2 vs 0.3, x.xxxxxx5 roundings ...),
    for several precisions, 1 to 5 actions, and Solver.floor for many thresholds;
  * when the tree offers the "explain" feature (variant 1): the same runs with
    explain=True must give the very same results, the table must agree with the
    strategies, and the report must be the old report plus the new section.
"""
import json
import os
import subprocess
import sys

N_RANDOM_GAMES = 700
BATCH = 25
SMALL_INPUTS = [
    "example_games.py", "paper_games.py", "example_17_08.py", "manual_1_game_a.py",
    "manual_arrow_bottom.py", "robot_1_w1_l2_r6_rb10_lb5_tb10_lt0.py",
    "robot_1_w2_l1_r6_rb10_lb5_tb10_lt0.py", "robot_1_w2_l2_r6_rb10_lb5_tb10_lt0.py",
    "robot_999132423_w3_l3_r6_rb1_lb2_tb10_lt30.py",
    "robot_999132423_w3_l3_r6_rb1_lb2_tb10_lt30_force_down.py",
    "robot_manual_0_w4_l4_r6_rb10_lb5_tb10_lt30.py",
    "robot_47_w5_l5_r6_rb10_lb10_tb10_lt30.py",
]

P1, P2, PR = "Player 1", "Player 2", "Probabilistic"

# --------------------------------------------------------------------------- corpus

DISTRIBUTIONS = [
    [1], [1.0], [0.5, 0.5], [0.25, 0.75], [1 / 3, 2 / 3], [0.1, 0.2, 0.7], [0.3, 0.7],
    [1 / 3, 1 / 3, 1 / 3], [0.25, 0.25, 0.5], [1e-7, 1 - 1e-7], [0.999999, 1e-6],
    [0.1] * 10, [0.2, 0.2, 0.2, 0.4], [1 / 6] * 6, [0.125, 0.875], [5e-7, 1 - 5e-7],
    [0.5, 0.5 - 5e-7, 5e-7], [0.6, 0.4], [0.15, 0.85], [1 / 7, 6 / 7],
]


def random_distribution(rng):
    if rng.random() < 0.7:
        return list(rng.choice(DISTRIBUTIONS))
    k = rng.randint(2, 4)
    cuts = sorted(rng.random() for _ in range(k - 1))
    probs = [b - a for a, b in zip([0.0] + cuts, cuts + [1.0])]
    return [p for p in probs if p > 0] or [1]


def reformulate(rng, transitions):
    """ the same rational distribution written differently (other float sums) """
    new = []
    for prob, target in transitions:
        choice = rng.random()
        if choice < 0.4:
            new.append((prob / 2, target))
            new.append((prob / 2, target))
        elif choice < 0.6 and prob in (0.3, 0.7, 0.75, 0.5):
            first = {0.3: 0.1, 0.7: 0.2, 0.75: 0.25, 0.5: 0.125}[prob]
            new.append((first, target))
            new.append((prob - first, target))
        else:
            new.append((prob, target))
    rng.shuffle(new)
    return new


def random_game(rng, idx):
    """
        kind "zero":  all rewards are 0, any graph (cycles through player states too);
        kind "leaky": positive rewards, player states only move forward, probabilistic
                      states may go back with probability <= 1/2; the last states absorb
                      with reward 0.  Both kinds make the two value iterations terminate.
    """
    kind = "zero" if idx % 2 == 0 else "leaky"
    n = rng.randint(2, 14)
    n_absorbing = rng.randint(1, min(4, n - 1))
    first_absorbing = n - n_absorbing
    players = [rng.choice([P1, P2, PR, P1, P2]) for _ in range(first_absorbing)]
    players += [rng.choice([PR, PR, P1, P2]) for _ in range(n_absorbing)]
    transitions = []
    for state in range(n):
        if state >= first_absorbing:
            transitions.append([(1, state)] if players[state] == PR else [("stay", state)])
            continue

        def target(forward_only):
            if forward_only:
                return rng.randint(state + 1, n - 1)
            return rng.randint(0, n - 1)
        if players[state] == PR:
            probs = random_distribution(rng)
            if kind == "zero":
                trans = [(p, target(False)) for p in probs]
            else:
                trans, back = [], 0.0
                for p in probs:
                    if back + p <= 0.5 and rng.random() < 0.4:
                        back += p
                        trans.append((p, target(False)))
                    else:
                        trans.append((p, target(True)))
            transitions.append(trans)
        else:
            k = rng.choice([1, 1, 2, 2, 2, 3, 3, 4, 5])
            labels = rng.sample(["a", "b", "c", "d", "e", "f"], k)
            if rng.random() < 0.03 and k > 1:
                labels[1] = labels[0]          # boundary: a repeated label
            transitions.append([(label, target(kind == "leaky")) for label in labels])
    # exact ties through different arithmetic paths: a twin of a probabilistic state
    prob_states = [s for s in range(first_absorbing) if players[s] == PR]
    if len(prob_states) >= 2 and rng.random() < 0.6:
        a, b = rng.sample(prob_states, 2)
        if kind == "zero" or a > b:
            transitions[b] = reformulate(rng, transitions[a])
        else:
            transitions[a] = reformulate(rng, transitions[b])
        if kind == "leaky":      # keep the leak invariant: re-target backward edges
            for s in (a, b):
                transitions[s] = [
                    (p, t if t > s else rng.randint(s + 1, n - 1)) for p, t in transitions[s]]
    n_final = rng.randint(1, n_absorbing)
    finals = rng.sample(range(first_absorbing, n), n_final)
    if rng.random() < 0.15 and first_absorbing > 1:
        finals.append(rng.randint(1, first_absorbing - 1))      # a final state that moves on
    if rng.random() < 0.1:
        finals.append(finals[0])                                  # boundary: listed twice
    if kind == "zero":
        rewards = [0] * n
    else:
        rewards = [rng.choice([0, 0, 1, 2, 0.5, 5 / 3, 10]) for _ in range(first_absorbing)]
        rewards += [0] * n_absorbing
    return {"rewards": rewards, "players": players,
            "transition_list": transitions, "final_states": finals}


def hand_made_games():
    games = {}
    # 0.1+0.2 against 0.3, for both players
    for player in (P1, P2):
        games[f"float_tie_{player[-1]}"] = {
            "rewards": [0] * 6, "players": [player, PR, PR, PR, PR, PR],
            "transition_list": [[("x", 1), ("y", 2), ("z", 3)],
                                [(0.1, 4), (0.2, 4), (0.7, 5)], [(0.3, 4), (0.7, 5)],
                                [(0.7, 5), (0.2, 4), (0.1, 4)], [(1, 4)], [(1, 5)]],
            "final_states": [4]}
        # every successor has value 0 (no-prune mode solves it, prune mode refuses)
        games[f"all_zero_{player[-1]}"] = {
            "rewards": [0] * 4, "players": [player, PR, PR, PR],
            "transition_list": [[("x", 1), ("y", 2)], [(1, 1)], [(1, 2)], [(1, 3)]],
            "final_states": [3]}
        # every successor has value 1
        games[f"all_one_{player[-1]}"] = {
            "rewards": [0] * 4, "players": [player, PR, PR, PR],
            "transition_list": [[("x", 1), ("y", 2), ("z", 3)], [(0.5, 3), (0.5, 2)],
                                [(1, 3)], [(1, 3)]],
            "final_states": [3]}
        # differences right at / below / above the sixth digit
        for tag, eps in (("below", 4e-7), ("at", 5e-7), ("above", 6e-7), ("clear", 1e-3)):
            games[f"near_{tag}_{player[-1]}"] = {
                "rewards": [0] * 5, "players": [player, PR, PR, PR, PR],
                "transition_list": [[("x", 1), ("y", 2)], [(0.5, 3), (0.5, 4)],
                                    [(0.5 + eps, 3), (0.5 - eps, 4)], [(1, 3)], [(1, 4)]],
                "final_states": [3]}
        # one action only
        games[f"single_{player[-1]}"] = {
            "rewards": [0, 0, 0], "players": [player, PR, PR],
            "transition_list": [[("only", 1)], [(0.5, 1), (0.5, 2)], [(1, 2)]],
            "final_states": [2]}
    # player states choosing among player states (nested max/min), a cycle
    games["nested_cycle"] = {
        "rewards": [0] * 7, "players": [P1, P2, P1, PR, PR, PR, PR],
        "transition_list": [[("a", 1), ("b", 2), ("c", 0)], [("a", 3), ("b", 4), ("c", 2)],
                            [("a", 0), ("b", 3)], [(0.5, 5), (0.5, 6)],
                            [(0.25, 5), (0.25, 5), (0.5, 6)], [(1, 5)], [(1, 6)]],
        "final_states": [5]}
    return games


def build_corpus():
    import random
    rng = random.Random(20240404)
    corpus = dict(hand_made_games())
    for idx in range(N_RANDOM_GAMES):
        corpus[f"g{idx}"] = random_game(rng, idx)
    return corpus


BOUNDARY_VALUES = [
    0, 0.0, 1, 1.0, 0.3, 0.1 + 0.2, 0.30000049, 0.3000005, 0.30000051, 0.2999995,
    5e-7, 4.9e-7, 5.1e-7, 1e-6, 1 - 1e-7, 1 - 5e-7, 0.9999995, 1.0000000000000002,
    0.5, 0.5000000000000001, 0.49999999999999994, 1e-300, 2.5e-6, 3.5e-6, 0.7, 0.1 * 7,
    0.75, 0.25 + 0.5, 1 / 3, 1 - 2 / 3, 0.05, 0.15, 0.25,
]

THRESHOLDS = [10 ** (-6), 1e-6, 1e-3, 0.001, 1e-1, 0.5, 1e-12, 2e-6, 1e-9, 9.99e-7, 1e-5, 10 ** (-2)]

# --------------------------------------------------------------------------- worker


def exact(value):
    """ a JSON friendly, exact picture of a result """
    if isinstance(value, float):
        return "f:" + repr(value)
    if isinstance(value, (list, tuple)):
        return [exact(v) for v in value]
    if isinstance(value, dict):
        return {str(k): exact(v) for k, v in value.items()}
    if value is None or isinstance(value, (int, str, bool)):
        return value
    return repr(value)


def mask_time(text):
    return "\n".join(
        "Total time : <masked>" if line.startswith("Total time") else line
        for line in text.split("\n"))


def worker(root):
    import copy
    import inspect
    import random
    import signal
    import tempfile
    root = os.path.abspath(root)
    sys.path.insert(0, root)
    workdir = tempfile.mkdtemp(prefix="c04_equiv_")
    os.makedirs(os.path.join(workdir, "outputs"))
    os.chdir(workdir)
    import tad
    import conditionalrewards as cr
    assert os.path.dirname(os.path.abspath(tad.__file__)) == root, tad.__file__

    class Timeout(Exception):
        pass

    def on_alarm(signum, frame):
        raise Timeout()
    signal.signal(signal.SIGALRM, on_alarm)

    def solve(game, prune, **kwargs):
        description = copy.deepcopy(game)
        sgame = tad.StochasticGame(prune_states=prune, **description)
        signal.alarm(20)
        try:
            result = ["ok", exact(sgame.solve(**kwargs))]
        except ValueError as error:
            result = ["ValueError", str(error)]
        except Timeout:
            result = ["timeout"]
        finally:
            signal.alarm(0)
        # the caller's description must stay untouched
        result.append(description == game)
        return result, sgame

    def strip(results, drop=("total_time",)):
        return {name: {k: exact(v) for k, v in res.items() if k not in drop}
                for name, res in results.items()}

    corpus = build_corpus()
    names = list(corpus)
    out = {"solve": {}, "run_games": {}, "reports": {}, "inputs": {}, "unit": [], "floor": []}
    has_explain = "explain" in inspect.signature(cr.run_games).parameters
    extra = {"solve": {}, "run_games": {}, "reports": {}, "problems": []} if has_explain else None

    for name in names:
        for prune in (True, False):
            out["solve"][f"{name}/{prune}"] = solve(corpus[name], prune)[0]
            if has_explain:
                result, sgame = solve(corpus[name], prune, explain=True)
                extra["solve"][f"{name}/{prune}"] = result
                if result[0] == "ok":
                    table = sgame.reachability_choices
                    strategies = sgame_strategies = None
                    strategies = json.loads(json.dumps(result[1][1]))
                    for idx, player in enumerate(corpus[name]["players"]):
                        row = table[idx]
                        if player == PR:
                            ok = row is None and strategies[idx] is None
                        else:
                            ok = ([c.action for c in row if c.chosen] == strategies[idx]
                                  and [(c.action, c.next_state) for c in row]
                                  == corpus[name]["transition_list"][idx])
                        if not ok:
                            extra["problems"].append(f"table/strategy mismatch {name} {prune} {idx}")

    for start in range(0, len(names), BATCH):
        batch = {name: copy.deepcopy(corpus[name]) for name in names[start:start + BATCH]}
        results = cr.run_games(copy.deepcopy(batch))
        out["run_games"].update(strip(results))
        cr.save_results_to_file(results, f"some/dir/batch{start}.py")
        with open(os.path.join("outputs", f"batch{start}.txt")) as handle:
            out["reports"][str(start)] = mask_time(handle.read())
        if has_explain:
            results = cr.run_games(copy.deepcopy(batch), explain=True)
            extra["run_games"].update(strip(results, ("total_time", "reachability_choices")))
            cr.save_results_to_file(results, f"some/dir/explain{start}.py")
            with open(os.path.join("outputs", f"explain{start}.txt")) as handle:
                lines = mask_time(handle.read()).split("\n")
            kept = [line for line in lines
                    if not line.startswith("Reachability choices") and not line.startswith("    ")]
            extra["reports"][str(start)] = "\n".join(kept)
            if not any(line.startswith("Reachability choices") for line in lines):
                extra["problems"].append(f"no explain section in report {start}")

    for file_name in SMALL_INPUTS:
        games = cr.read_dict_from_file(os.path.join(root, "inputs", file_name))
        out["inputs"][file_name] = strip(cr.run_games(games))

    # direct calls of the two anchored getters
    rng = random.Random(77)

    def stub(idx, value, num_states):
        node = tad.ProbabilisticNode(player=PR, idx=idx, reward=0, next_states=[(1, idx)],
                                     num_states=num_states, is_final_node=False)
        node.reach_probability = value
        return node
    cases = []
    for value in BOUNDARY_VALUES:               # one action, every boundary value
        cases.append([value])
    for first in BOUNDARY_VALUES:               # every pair, both orders appear
        for second in BOUNDARY_VALUES:
            cases.append([first, second])
    for _ in range(1500):
        cases.append([rng.choice(BOUNDARY_VALUES) for _ in range(rng.randint(3, 5))])
    floors = [6, 0, 1, 3, 7, 12]
    for case_no, values in enumerate(cases):
        k = len(values)
        num_states = k + 1
        labels = [f"a{i}" for i in range(k)]
        state_list = [None] + [stub(i + 1, value, num_states) for i, value in enumerate(values)]
        record = []
        for cls, player, getter in ((tad.PlayerOne, P1, "get_best_strategies_reachability"),
                                    (tad.PlayerTwo, P2, "get_worst_strategies_reachability")):
            node = cls(player=player, idx=0, reward=0,
                       next_states=[(label, i + 1) for i, label in enumerate(labels)],
                       num_states=num_states)
            state_list[0] = node
            for floor in (floors if case_no % 7 == 0 else floors[:2]):
                record.append(getattr(node, getter)(state_list, floor))
            record.append(tad.Solver(state_list)._get_reachability_strategies())
            record.append(tad.Solver(state_list, threshold=1e-3)._get_reachability_strategies())
            record.append(node.next_states == [(label, i + 1) for i, label in enumerate(labels)])
        out["unit"].append(record)
    for threshold in THRESHOLDS:
        solver = tad.Solver([], threshold) if threshold != THRESHOLDS[0] else tad.Solver([])
        out["floor"].append([repr(threshold), solver.floor, repr(solver.threshold),
                             type(solver.floor).__name__])
    out["extra"] = extra
    json.dump(out, sys.stdout)


# --------------------------------------------------------------------------- parent


def run_worker(root):
    env = dict(os.environ, PYTHONDONTWRITEBYTECODE="1", PYTHONHASHSEED="0")
    proc = subprocess.run([sys.executable, os.path.abspath(__file__), "--worker", root],
                          stdout=subprocess.PIPE, stderr=subprocess.PIPE, env=env, text=True)
    if proc.returncode != 0:
        print(proc.stderr[-4000:])
        raise SystemExit(f"FAIL: worker for {root} crashed")
    return json.loads(proc.stdout)


def compare(label, patched, clean, problems):
    if patched == clean:
        return
    if isinstance(patched, dict) and isinstance(clean, dict):
        for key in sorted(set(patched) | set(clean)):
            if patched.get(key) != clean.get(key):
                problems.append(f"{label}[{key}]:\n   patched: {str(patched.get(key))[:600]}\n"
                                f"   clean:   {str(clean.get(key))[:600]}")
    elif isinstance(patched, list) and isinstance(clean, list) and len(patched) == len(clean):
        for idx, (a, b) in enumerate(zip(patched, clean)):
            if a != b:
                problems.append(f"{label}[{idx}]:\n   patched: {str(a)[:600]}\n   clean:   {str(b)[:600]}")
    else:
        problems.append(f"{label}: differs")


def main():
    if len(sys.argv) == 3 and sys.argv[1] == "--worker":
        worker(sys.argv[2])
        return
    if len(sys.argv) != 3:
        raise SystemExit(__doc__)
    patched = run_worker(sys.argv[1])
    clean = run_worker(sys.argv[2])
    problems = []
    for section in ("solve", "run_games", "reports", "inputs", "unit", "floor"):
        compare(section, patched[section], clean[section], problems)
    extra = patched.get("extra")
    if extra:
        problems.extend(extra["problems"])
        compare("solve(explain=True)", extra["solve"], clean["solve"], problems)
        compare("run_games(explain=True)", extra["run_games"], clean["run_games"], problems)
        compare("report(explain=True) minus the new section", extra["reports"],
                clean["reports"], problems)
    solved = [v for v in clean["solve"].values() if v[0] == "ok"]
    refused = [v for v in clean["solve"].values() if v[0] == "ValueError"]
    timeouts = [v for v in clean["solve"].values() if v[0] == "timeout"]
    ties = sum(1 for v in solved for s in v[1][1] if s is not None and len(s) > 1)
    strict = sum(1 for v in solved for s in v[1][1] if s is not None and len(s) == 1)
    print(f"solve() runs: {len(solved)} solved, {len(refused)} refused, {len(timeouts)} timed out; "
          f"player states with a tie: {ties}, with a single best action: {strict}; "
          f"unit cases: {len(clean['unit'])}; explain feature exercised: {bool(extra)}")
    if timeouts:
        problems.append("some games timed out: the corpus is not doing its job")
    if problems:
        for problem in problems[:40]:
            print(problem)
        print(f"FAIL ({len(problems)} differences)")
        raise SystemExit(1)
    print("PASS")


if __name__ == "__main__":
    main()
