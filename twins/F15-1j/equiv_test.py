#!/usr/bin/env python
"""Equivalence test for property C15 (random board generator).

usage: python equiv_test.py <path-to-patched-root> <path-to-clean-root>

Both trees are loaded in separate subprocesses (this same file, --worker mode).
Each worker runs the same deterministic battery against roberta_generator.py of
its tree and prints a JSON list of (label, outcome) pairs; the driver compares
the two lists entry by entry.  Prints PASS / exit 0 when nothing differs.

The battery:
  A  gen_rnd_board on ~2500 accepted parameter sets (boundaries: width 1,
     length 1, tiny / near-1 probabilities, max_reward 1 .. 1100, force_down
     on/off, defaults omitted), comparing repr of the result AND the position
     of the global random stream afterwards;
  B  gen_rnd_board called directly with parameters outside the documented
     ranges / of odd types (outcome or exception type+message, stream position);
  C  get_random_moves directly after seeding;
  D  check_input: every boundary of the eight range checks, one / two / many
     bad arguments at once (order of the checks), NaN, infinities, bools, odd
     types;
  E  main() in-process in a scratch cwd: written files byte for byte (sha256 +
     name), exception type+message / SystemExit code, inputs/ untouched on
     refusal, missing inputs/ directory; includes the parameter sets encoded in
     the committed inputs/robot_*.py names;
  F  `python roberta_generator.py ...` as a real process: exit status, last
     stderr line, files;
  G  write_robots / create_sg_from_board (callers of the same code) on good and
     malformed boards.
"""
import sys
import os
import json
import subprocess


# --------------------------------------------------------------------------
# worker
# --------------------------------------------------------------------------

def worker(root):
    import contextlib
    import hashlib
    import importlib
    import io
    import random
    import shutil
    import tempfile
    import warnings
    from decimal import Decimal
    from fractions import Fraction

    warnings.simplefilter("ignore")
    root = os.path.abspath(root)
    sys.path.insert(0, root)
    gen = importlib.import_module("roberta_generator")
    assert os.path.abspath(gen.__file__).startswith(root + os.sep), gen.__file__
    manual = importlib.import_module("stochastic_game_from_roborta_board")
    assert os.path.abspath(manual.__file__).startswith(root + os.sep)

    out = []
    rng = random.Random(20240915)      # private stream: never the global one
    nan = float("nan")
    inf = float("inf")

    def stream_pos():
        # fingerprint of the global generator state (without consuming it)
        return hashlib.sha256(repr(random.getstate()).encode()).hexdigest()[:16]

    def outcome(fn, *args, **kwargs):
        try:
            res = fn(*args, **kwargs)
            return ["ok", repr(res)]
        except BaseException as exc:      # noqa: BLE001 - we compare them
            return ["exc", type(exc).__name__, str(exc)]

    def rec(label, value):
        out.append([label, value])

    # ---------------------------------------------------------------- A
    seeds = [0, 1, 2, 3, 7, 40, 41, 47, 51, 999132423, 2**31 - 1, 2**31,
             2**32, 2**40 + 17, 2**64 + 1, 10**30]
    sizes = [1, 2, 3, 4, 5, 6, 7, 10, 13]
    probs = [5e-324, 1e-300, 1e-12, 1e-9, 0.001, 0.01, 0.1, 0.3, 0.5, 0.7,
             0.9, 0.99, 0.999999, 1 - 1e-12, 1 - 2**-53]
    max_rewards = [1, 2, 3, 5, 6, 7, 10, 30, 52, 53, 60, 100, 1021, 1022,
                   1023, 1024, 1100]
    n = 0
    # systematic boundaries
    for force_down in (False, True):
        for length in (1, 2, 5):
            for width in (1, 2, 5):
                for p in (5e-324, 0.3, 1 - 2**-53):
                    for mr in (1, 6, 1100):
                        for seed in (0, 47):
                            random.seed(12345)
                            o = outcome(gen.gen_rnd_board, seed, length, width,
                                        p, mr, force_down)
                            rec("A%d" % n, [seed, length, width, p, mr,
                                            force_down, o, stream_pos()])
                            n += 1
    # random accepted sets
    for _ in range(2200):
        seed = rng.choice(seeds + [rng.randrange(0, 10**6)] * 4)
        length = rng.choice(sizes)
        width = rng.choice(sizes)
        p = rng.choice(probs + [rng.random()] * 3)
        mr = rng.choice(max_rewards)
        force_down = rng.random() < 0.5
        o = outcome(gen.gen_rnd_board, seed, length, width, p, mr, force_down)
        rec("A%d" % n, [seed, length, width, repr(p), mr, force_down, o,
                        stream_pos(), repr(random.random())])
        n += 1
    # defaults omitted / keywords / a couple of big boards
    for seed in (0, 5, 47):
        rec("A-default-%d" % seed,
            [outcome(gen.gen_rnd_board, seed, 3, 4, 0.3), stream_pos()])
        rec("A-default-mr-%d" % seed,
            [outcome(gen.gen_rnd_board, seed, 3, 4, 0.3, 9), stream_pos()])
        rec("A-kw-%d" % seed,
            [outcome(gen.gen_rnd_board, seed=seed, length=2, width=3,
                     prob_loose_tile=0.4, max_reward=4, force_down=True),
             stream_pos()])
        rec("A-big-%d" % seed,
            [outcome(gen.gen_rnd_board, seed, 10, 40, 0.3, 6, True), stream_pos()])
        rec("A-big2-%d" % seed,
            [outcome(gen.gen_rnd_board, seed, 60, 50, 0.3, 6, False), stream_pos()])
    # reproducibility inside one process: twice the same call
    for seed in (3, 47):
        a = outcome(gen.gen_rnd_board, seed, 4, 4, 0.3, 6, True)
        random.random()
        b = outcome(gen.gen_rnd_board, seed, 4, 4, 0.3, 6, True)
        rec("A-twice-%d" % seed, [a, b, a == b])
    # results must be fresh, independent mutable lists
    m, r, l = gen.gen_rnd_board(1, 3, 3, 0.3, 6, True)
    rec("A-types", [type(m).__name__, type(r).__name__, type(l).__name__,
                    [type(x).__name__ for x in m], [type(x).__name__ for x in r],
                    [type(x).__name__ for x in l],
                    [type(v).__name__ for x in r for v in x],
                    [type(v).__name__ for x in l for v in x],
                    [type(v).__name__ for x in m for v in x],
                    len({id(x) for x in m + r + l})])

    # ---------------------------------------------------------------- B
    odd_calls = []
    for force_down in (False, True, 0, 1, "yes", "", None, [], [0]):
        for length, width in ((0, 0), (0, 3), (3, 0), (-1, 2), (2, -1), (1, 1),
                              (2, 2)):
            odd_calls.append((5, length, width, 0.3, 6, force_down))
    for mr in (0, -1, -2, -53, -1022, -1023, -1024, -1025, -1026, -2000, 1.5,
               -0.5, 2000, 10**6, True, False):
        for length, width in ((2, 2), (0, 2), (2, 0), (0, 0)):
            for fd in (False, True):
                odd_calls.append((5, length, width, 0.3, mr, fd))
    for p in (0, 0.0, -0.0, 1, 1.0, 2, -1, nan, inf, -inf, True, False,
              Fraction(1, 3), Decimal("0.3")):
        odd_calls.append((5, 2, 3, p, 6, False))
        odd_calls.append((5, 2, 3, p, 6, True))
    for seed in (-1, -5, -2**40, 1.5, -1.5, "abc", b"abc", True, False, 0.0,
                 bytearray(b"xy")):
        odd_calls.append((seed, 2, 3, 0.3, 6, True))
        odd_calls.append((seed, 2, 3, 0.3, 6, False))
    for bad in ("2", 2.0, None, [2], 2.5):
        odd_calls.append((5, bad, 2, 0.3, 6, True))
        odd_calls.append((5, 2, bad, 0.3, 6, True))
        odd_calls.append((5, bad, 2, 0.3, 6, False))
        odd_calls.append((5, 2, bad, 0.3, 6, False))
        odd_calls.append((5, 2, 2, bad, 6, False))
        odd_calls.append((5, 2, 2, 0.3, bad, False))
    odd_calls.append((5, True, True, 0.3, 6, True))
    odd_calls.append(([1], 2, 2, 0.3, 6, True))
    odd_calls.append(((1, 2), 2, 2, 0.3, 6, True))
    for k, args in enumerate(odd_calls):
        random.seed(999)
        o = outcome(gen.gen_rnd_board, *args)
        rec("B%d" % k, [repr(args), o, stream_pos()])
    rec("B-noargs", outcome(gen.gen_rnd_board))
    rec("B-fewargs", outcome(gen.gen_rnd_board, 1, 2, 3))
    rec("B-manyargs", outcome(gen.gen_rnd_board, 1, 2, 3, 0.3, 6, True, 1))

    # ---------------------------------------------------------------- C
    k = 0
    for force_down in (False, True, 0, 1, "x", None):
        for length in (0, 1, 2, 3, 7):
            for width in (0, 1, 2, 3, 7, 25):
                for s in (0, 1, 47):
                    random.seed(s)
                    o = outcome(gen.get_random_moves, length, width, force_down)
                    rec("C%d" % k, [length, width, repr(force_down), s, o,
                                    stream_pos()])
                    k += 1
    for args in ((-1, 3, True), (3, -1, True), (3, -1, False), ("3", 3, True),
                 (3, "3", True), (3, 2.0, False), (3, 2.0, True), (2.0, 3, True),
                 (True, True, True)):
        random.seed(4)
        rec("C-odd-%r" % (args,), [outcome(gen.get_random_moves, *args),
                                   stream_pos()])

    # ---------------------------------------------------------------- D
    names = ["seed", "width", "length", "prob_robot_break", "prob_light_break",
             "prob_loose_tile", "prob_tile_break", "max_reward"]
    good = [3, 3, 3, 0.1, 0.1, 0.3, 0.1, 6]
    int_pool = [-10**9, -2, -1, 0, 1, 2, 10**9, True, False, -0.0, 0.0, -0.5,
                0.5, -5e-324, 5e-324, nan, inf, -inf, None, "1", "", [1],
                Fraction(-1, 2), Fraction(1, 2), Decimal("0"), Decimal("-1"),
                Decimal("2"), 1 + 0j]
    prob_pool = [-1, 0, 1, 2, True, False, -0.0, 0.0, -5e-324, 5e-324, 1e-300,
                 0.5, 1 - 2**-53, 1.0, 1 + 2**-52, 1.5, -0.5, nan, inf, -inf,
                 None, "0.5", "", [0.5], Fraction(0), Fraction(1, 2),
                 Fraction(1), Fraction(3, 2), Decimal("0"), Decimal("0.5"),
                 Decimal("1"), Decimal("NaN"), 0.5 + 0j]
    pools = [int_pool, int_pool, int_pool, prob_pool, prob_pool, prob_pool,
             prob_pool, int_pool]
    rec("D-good", outcome(gen.check_input, *good))
    k = 0
    for i in range(8):                       # one argument off
        for v in pools[i]:
            args = list(good)
            args[i] = v
            rec("D1-%d" % k, [names[i], repr(v), outcome(gen.check_input, *args)])
            k += 1
    k = 0
    for i in range(8):                       # two arguments off: order of checks
        for j in range(i + 1, 8):
            for vi in pools[i][::3]:
                for vj in pools[j][1::4]:
                    args = list(good)
                    args[i] = vi
                    args[j] = vj
                    rec("D2-%d" % k, [i, j, repr(vi), repr(vj),
                                      outcome(gen.check_input, *args)])
                    k += 1
    for k in range(4000):                    # anything goes
        args = [rng.choice(pools[i]) if rng.random() < 0.45 else good[i]
                for i in range(8)]
        rec("D3-%d" % k, [repr(args), outcome(gen.check_input, *args)])
    rec("D-kw", outcome(gen.check_input, seed=0, width=1, length=1,
                        prob_robot_break=0.5, prob_light_break=0.5,
                        prob_loose_tile=0.5, prob_tile_break=0.5, max_reward=1))
    rec("D-kw-bad", outcome(gen.check_input, max_reward=0, prob_tile_break=1,
                            prob_loose_tile=0, prob_light_break=1.0,
                            prob_robot_break=0.0, length=0, width=0, seed=0))
    rec("D-few", outcome(gen.check_input, 1, 2, 3))
    rec("D-prob_to_str", [outcome(gen.prob_to_str, v) for v in
                          (0.1, 0.005, 0.015, 0.025, 0.995, 0.3, 1e-9, nan, inf,
                           0.29, 0.57, 1 - 1e-12, "a", None)])

    # ---------------------------------------------------------------- E
    def tree(path):
        listing = []
        for dirpath, dirnames, filenames in os.walk(path):
            dirnames.sort()
            for d in dirnames:
                listing.append([os.path.relpath(os.path.join(dirpath, d), path), "dir"])
            for f in sorted(filenames):
                full = os.path.join(dirpath, f)
                with open(full, "rb") as fh:
                    data = fh.read()
                listing.append([os.path.relpath(full, path), len(data),
                                hashlib.sha256(data).hexdigest()])
        return sorted(listing)

    def run_main(argv, with_inputs=True):
        tmp = tempfile.mkdtemp(prefix="c15_")
        old_cwd = os.getcwd()
        old_argv = sys.argv
        so, se = io.StringIO(), io.StringIO()
        try:
            os.chdir(tmp)
            if with_inputs:
                os.mkdir("inputs")
            sys.argv = ["roberta_generator.py"] + [str(a) for a in argv]
            random.seed(31337)
            with contextlib.redirect_stdout(so), contextlib.redirect_stderr(se):
                try:
                    res = gen.main()
                    o = ["ok", repr(res)]
                except SystemExit as exc:
                    o = ["exit", repr(exc.code)]
                except BaseException as exc:      # noqa: BLE001
                    o = ["exc", type(exc).__name__,
                         str(exc).replace(tmp, "<tmp>")]
            listing = tree(tmp)
            return [o, so.getvalue(), se.getvalue(), listing, stream_pos()]
        finally:
            sys.argv = old_argv
            os.chdir(old_cwd)
            shutil.rmtree(tmp, ignore_errors=True)

    rec("E-defaults", run_main([]))
    rec("E-defaults-noinputs", run_main([], with_inputs=False))
    rec("E-help", run_main(["--help"]))
    # parameter sets encoded in the committed inputs/robot_*.py names
    committed = [
        (1, 1, 2, 6, 0.10, 0.05, 0.10, 0.004, False),
        (1, 2, 1, 6, 0.10, 0.05, 0.10, 0.004, False),
        (1, 2, 2, 6, 0.10, 0.05, 0.10, 0.004, False),
        (40, 20, 10, 6, 0.1, 0.1, 0.1, 0.3, True),
        (40, 5, 5, 6, 0.1, 0.1, 0.1, 0.3, True),
        (41, 10, 5, 6, 0.1, 0.1, 0.1, 0.3, True),
        (47, 10, 5, 6, 0.1, 0.1, 0.1, 0.3, False),
        (47, 10, 5, 6, 0.1, 0.1, 0.1, 0.3, True),
        (47, 20, 10, 6, 0.1, 0.1, 0.1, 0.3, False),
        (47, 20, 10, 6, 0.1, 0.1, 0.1, 0.3, True),
        (47, 40, 10, 6, 0.1, 0.1, 0.1, 0.3, False),
        (47, 40, 10, 6, 0.1, 0.1, 0.1, 0.3, True),
        (47, 5, 5, 6, 0.1, 0.1, 0.1, 0.3, False),
        (47, 5, 5, 6, 0.1, 0.1, 0.1, 0.3, True),
        (51, 40, 10, 6, 0.1, 0.1, 0.1, 0.3, True),
        (999132423, 3, 3, 6, 0.01, 0.02, 0.1, 0.3, False),
        (999132423, 3, 3, 6, 0.01, 0.02, 0.1, 0.3, True),
    ]

    def argv_of(t, short=False):
        s, w, l, m, rb, lb, tb, lt, fd = t
        if short:
            a = ["-s", s, "-w", w, "-l", l, "-m", m, "-p", rb, "-q", lb,
                 "-r", tb, "-t", lt]
            return a + (["-f"] if fd else [])
        a = ["--seed", s, "--width", w, "--length", l, "--max_reward", m,
             "--prob_robot_break", rb, "--prob_light_break", lb,
             "--prob_tile_break", tb, "--prob_loose_tile", lt]
        return a + (["--force_down"] if fd else [])

    for k, t in enumerate(committed):
        rec("E-committed-%d" % k, [list(t), run_main(argv_of(t, short=k % 2 == 0))])

    # accepted boundary sets
    cli_probs = ["5e-324", "1e-300", "1e-9", "0.004", "0.005", "0.015", "0.1",
                 "0.3", "0.5", "0.994", "0.995", "0.999999",
                 "0.99999999999999989"]
    for k in range(110):
        t = (rng.choice([0, 1, 2, 47, 2**33, rng.randrange(10**6)]),
             rng.choice([1, 1, 2, 3, 5, 8]), rng.choice([1, 1, 2, 3, 5, 8]),
             rng.choice([1, 2, 6, 10, 1100]),
             rng.choice(cli_probs), rng.choice(cli_probs),
             rng.choice(cli_probs), rng.choice(cli_probs),
             rng.random() < 0.5)
        rec("E-ok-%d" % k, [list(t), run_main(argv_of(t, short=rng.random() < 0.3))])

    # refused sets: every boundary of the eight checks, through main()
    base = (3, 3, 3, 6, "0.1", "0.1", "0.1", "0.3", False)
    bad_values = {
        0: [-1, -2, -10**12],
        1: [0, -1, -7],
        2: [0, -1, -7],
        3: [0, -1, -7],
        4: ["0", "0.0", "-0.0", "1", "1.0", "-0.1", "1.1", "inf", "-inf", "nan",
            "1e-400", "2"],
        5: ["0", "0.0", "-0.0", "1", "1.0", "-0.1", "1.1", "inf", "-inf", "nan",
            "1e-400", "2"],
        6: ["0", "0.0", "-0.0", "1", "1.0", "-0.1", "1.1", "inf", "-inf", "nan",
            "1e-400", "2"],
        7: ["0", "0.0", "-0.0", "1", "1.0", "-0.1", "1.1", "inf", "-inf", "nan",
            "1e-400", "2"],
    }
    k = 0
    for i, vals in bad_values.items():
        for v in vals:
            for fd in (False, True):
                t = list(base)
                t[i] = v
                t[8] = fd
                rec("E-bad-%d" % k, [t, run_main(argv_of(tuple(t)))])
                k += 1
    # two bad at once (which message wins), and unparsable values (argparse)
    for k in range(60):
        t = list(base)
        for i in rng.sample(range(8), 2):
            t[i] = rng.choice(bad_values[i])
        t[8] = rng.random() < 0.5
        rec("E-bad2-%d" % k, [t, run_main(argv_of(tuple(t)))])
    for k, argv in enumerate([["--seed", "x"], ["--width", "1.5"],
                              ["--prob_loose_tile", "abc"], ["--max_reward", ""],
                              ["--force_down", "1"], ["--unknown"], ["-s"],
                              ["-s", "1", "-s", "2"], ["--seed=4", "--width=2"],
                              ["--see", "4"], ["-s4", "-w2", "-l2", "-f"],
                              ["-w", "0", "--help"]]):
        rec("E-argparse-%d" % k, [argv, run_main(argv)])
    for k, t in enumerate([(-1, 3, 3, 6, "0.1", "0.1", "0.1", "0.3", False),
                           (1, 0, 3, 6, "0.1", "0.1", "0.1", "0.3", True),
                           (1, 2, 2, 6, "0.1", "0.1", "0.1", "0.3", True)]):
        rec("E-noinputs-%d" % k, [list(t), run_main(argv_of(t), with_inputs=False)])

    # ---------------------------------------------------------------- F
    script = os.path.join(root, "roberta_generator.py")
    proc_cases = [
        [],
        ["-s", "47", "-w", "5", "-l", "5", "-f"],
        ["-s", "1", "-w", "1", "-l", "1", "-m", "1", "-t", "0.999999"],
        ["-s", "-1"],
        ["-w", "0"],
        ["-l", "0", "-f"],
        ["-m", "0"],
        ["-p", "1"],
        ["-q", "0"],
        ["-r", "1.0"],
        ["-t", "0.0", "-f"],
        ["-t", "nan"],
        ["-w", "abc"],
    ]
    for k, argv in enumerate(proc_cases):
        tmp = tempfile.mkdtemp(prefix="c15p_")
        try:
            os.mkdir(os.path.join(tmp, "inputs"))
            env = dict(os.environ, PYTHONDONTWRITEBYTECODE="1")
            p = subprocess.run([sys.executable, script] + argv, cwd=tmp, env=env,
                               capture_output=True, text=True, timeout=60)
            err_lines = [ln for ln in p.stderr.splitlines() if ln.strip()]
            last = err_lines[-1] if err_lines else ""
            rec("F%d" % k, [argv, p.returncode, p.stdout, last, tree(tmp)])
        finally:
            shutil.rmtree(tmp, ignore_errors=True)

    # ---------------------------------------------------------------- G
    def run_in_tmp(fn, with_inputs=True):
        tmp = tempfile.mkdtemp(prefix="c15g_")
        old_cwd = os.getcwd()
        try:
            os.chdir(tmp)
            if with_inputs:
                os.mkdir("inputs")
            o = outcome(fn)
            if o[0] == "exc":
                o[2] = o[2].replace(tmp, "<tmp>")
            import gc
            gc.collect()
            return [o, tree(tmp)]
        finally:
            os.chdir(old_cwd)
            shutil.rmtree(tmp, ignore_errors=True)

    boards = []
    for seed, length, width, fd in ((1, 1, 1, False), (1, 1, 1, True),
                                    (2, 3, 4, True), (3, 4, 2, False),
                                    (47, 5, 5, True)):
        boards.append(gen.gen_rnd_board(seed, length, width, 0.3, 6, fd))
    for k, (m, r, l) in enumerate(boards):
        rec("G-write-%d" % k, run_in_tmp(lambda: gen.write_robots(
            "inputs/out.py", len(m), len(m[0]), m, r, l, 0.1, 0.2, 0.3)))
        rec("G-manual-%d" % k, run_in_tmp(lambda: manual.create_sg_from_board(
            m, r, l, 0.1, 0.05, 0.1)))
    m, r, l = boards[2]
    rec("G-write-nodir", run_in_tmp(lambda: gen.write_robots(
        "nowhere/out.py", len(m), len(m[0]), m, r, l, 0.1, 0.2, 0.3)))
    rec("G-write-noinputs", run_in_tmp(lambda: gen.write_robots(
        "inputs/out.py", len(m), len(m[0]), m, r, l, 0.1, 0.2, 0.3),
        with_inputs=False))
    bad_moves = [list(row) for row in m]
    bad_moves[1][1] = 7
    rec("G-write-badmove", run_in_tmp(lambda: gen.write_robots(
        "inputs/out.py", len(m), len(m[0]), bad_moves, r, l, 0.1, 0.2, 0.3)))
    rec("G-write-short", run_in_tmp(lambda: gen.write_robots(
        "inputs/out.py", len(m) + 1, len(m[0]), m, r, l, 0.1, 0.2, 0.3)))
    rec("G-write-empty", run_in_tmp(lambda: gen.write_robots(
        "inputs/out.py", 0, 0, [], [], [], 0.1, 0.2, 0.3)))
    rec("G-manual-empty", run_in_tmp(lambda: manual.create_sg_from_board(
        [], [], [], 0.1, 0.05, 0.1)))

    json.dump(out, sys.stdout)
    sys.stdout.write("\n")


# --------------------------------------------------------------------------
# driver
# --------------------------------------------------------------------------

def run_worker(root):
    env = dict(os.environ, PYTHONDONTWRITEBYTECODE="1", PYTHONHASHSEED="0")
    return subprocess.Popen([sys.executable, os.path.abspath(__file__),
                             "--worker", root],
                            stdout=subprocess.PIPE, stderr=subprocess.PIPE,
                            text=True, env=env, cwd=os.path.abspath(root))


def main():
    if len(sys.argv) == 3 and sys.argv[1] == "--worker":
        worker(sys.argv[2])
        return 0
    if len(sys.argv) != 3:
        print(__doc__)
        return 2
    patched, clean = sys.argv[1], sys.argv[2]
    procs = [run_worker(patched), run_worker(clean)]
    results = []
    for name, p in zip(("patched", "clean"), procs):
        so, se = p.communicate(timeout=600)
        if p.returncode != 0:
            print("FAIL: worker for %s tree crashed (rc=%s)" % (name, p.returncode))
            print(se[-4000:])
            return 1
        results.append(json.loads(so))
    a, b = results
    diffs = []
    if len(a) != len(b):
        diffs.append("different number of observations: %d vs %d" % (len(a), len(b)))
    for x, y in zip(a, b):
        if x != y:
            diffs.append("%s:\n   patched: %s\n   clean:   %s" % (
                x[0], json.dumps(x[1])[:1500], json.dumps(y[1])[:1500]))
    if diffs:
        print("FAIL: %d difference(s) over %d observations" % (len(diffs), len(a)))
        for d in diffs[:15]:
            print(" -", d)
        return 1
    n_exc = sum(1 for x in a if '"exc"' in json.dumps(x[1]))
    print("PASS (%d observations compared, %d of them involve an exception)"
          % (len(a), n_exc))
    return 0


if __name__ == "__main__":
    sys.exit(main())
