#!/usr/bin/env python
"""Differential test for property C12 (batch runs solve each game in isolation
and report failures).

usage: python equiv.py <clean_repo_dir> <patched_repo_dir>

Stages
  1. --filter : with the CLEAN tree, generate a pool of games (well-formed games of
     all three state kinds with cycles, parallel edges, several finals, sinks;
     no-solution games; malformed games of every kind check_game / check_next_states
     / init_states reject; games that raise something else than ValueError) and
     drop the ones whose solve does not stop quickly (non-stopping games).
  2. --worker : once per tree, each in its own subprocess (module names collide).
     Runs the same batches (random subsets, orders, reversed orders, solo runs,
     colliding names, aliased games, odd names, non-dict inputs) through
     run_games, records result dicts (key order, reprs of all values), exception
     type+message, the state of the caller's dictionary afterwards, every log
     record, the report file written by save_results_to_file byte for byte;
     crafted calls of save_results_to_file / read_dict_from_file / set_logger /
     init_parser; and command line runs `conditionalrewards.py -f FILE [-s] [-l X]`
     (return code, stdout, stderr, report bytes).
  3. the two recordings are compared item by item.

Wall-clock time (the total_time value, the "Total time" lines, asctime prefixes,
traceback frames) is normalised, nothing else.
"""
import copy
import logging
import os
import pickle
import random
import re
import shutil
import signal
import subprocess
import sys
import tempfile
import time

SEED = 20261005
P1, P2, PR = "Player 1", "Player 2", "Probabilistic"
N_WELL = 900
N_WILD = 40
N_BAD = 450
N_BATCHES = 650
SOLVE_CAP = 0.10       # filter: timer per solve
SOLVE_ACCEPT = 0.04    # filter: a game is kept when each solve needs less than this
BATCH_CAP = 20         # worker: guard per batch (never expected to fire)


class _Timeout(BaseException):
    pass


def _on_alarm(signum, frame):
    raise _Timeout()


class alarm_guard:
    def __init__(self, seconds):
        self.seconds = seconds

    def __enter__(self):
        signal.signal(signal.SIGALRM, _on_alarm)
        signal.setitimer(signal.ITIMER_REAL, self.seconds)

    def __exit__(self, *exc):
        signal.setitimer(signal.ITIMER_REAL, 0)
        return False


# --------------------------------------------------------------------------- #
# game generation

def rand_probs(rng, k):
    if k == 1:
        return [rng.choice([1, 1.0])]
    if rng.random() < 0.4:
        w = [rng.choice([1, 1, 2, 3, 4]) for _ in range(k)]
        tot = sum(w) * rng.choice([1, 1, 2])
        # dyadic-ish or small rationals; may sum to less than one on purpose
        return [x / tot for x in w]
    w = [rng.random() + 0.05 for _ in range(k)]
    tot = sum(w)
    return [x / tot for x in w]


def gen_game(rng, wild=False):
    n = rng.randint(2, 9)
    n_abs = rng.randint(1, min(3, n - 1))
    first_abs = n - n_abs
    players, trans, rewards = [], [], []
    for s in range(n):
        kind = rng.choice([P1, P2, PR])
        players.append(kind)
        if s >= first_abs:
            trans.append([(rng.choice([1, 1.0]), s)] if kind == PR else [("stay", s)])
            rewards.append(0 if not wild else rng.choice([0, 0, 0, 1]))
            continue
        k = rng.randint(1, 4)
        fwd = list(range(s + 1, n))
        if kind == PR:
            targets = [rng.choice(fwd)]
            for _ in range(k - 1):
                if wild or rng.random() < 0.6:
                    targets.append(rng.randrange(n))
                else:
                    targets.append(rng.choice(fwd))
            rng.shuffle(targets)
            trans.append(list(zip(rand_probs(rng, len(targets)), targets)))
        else:
            targets = []
            for _ in range(k):
                if wild or rng.random() < 0.04:
                    targets.append(rng.randrange(n))
                else:
                    targets.append(rng.choice(fwd))
            names = [rng.choice(["a", "b", "c", "d", "go", "left"]) if rng.random() < 0.3
                     else "act%d" % j for j in range(k)]
            trans.append(list(zip(names, targets)))
            if not wild and min(targets) <= s and rng.random() < 0.7:
                # a cycle through player states only: mostly without reward, so that it stops
                rewards.append(0)
                continue
        rewards.append(rng.choice([0, 0, 1, 2, 3, 5, 10, 0.5, 2.25, 7]))
    absorbing = list(range(first_abs, n))
    finals = rng.sample(absorbing, rng.randint(1, len(absorbing)))
    r = rng.random()
    if r < 0.10:
        finals.append(rng.randrange(n))
    elif r < 0.15:
        finals = finals + finals[:1]
    game = {"rewards": rewards, "players": players,
            "transition_list": trans, "final_states": finals}
    r = rng.random()
    if r < 0.05:
        game["prune_states"] = rng.choice([True, False, None, "yes"])
    elif r < 0.08:
        game["transition_list"] = tuple(trans)
    elif r < 0.11:
        game["rewards"] = tuple(rewards)
    elif r < 0.14:
        # two states share one transition row object
        if first_abs >= 2 and players[0] == players[1]:
            game["transition_list"][0] = game["transition_list"][1]
    return game


def no_solution_game(rng):
    g = gen_game(rng)
    n = len(g["players"])
    sink = n - 1
    # state 0 goes to the sink only, the only final state is somewhere else / the sink is no final
    if g["players"][0] == PR:
        g["transition_list"][0] = [(1.0, sink)]
    else:
        g["transition_list"][0] = [("only", sink)]
    g["final_states"] = [s for s in g["final_states"] if s != sink]
    if not g["final_states"]:
        if n >= 3:
            g["final_states"] = [n - 2]
            kind = g["players"][n - 2]
            g["transition_list"][n - 2] = [(1, n - 2)] if kind == PR else [("stay", n - 2)]
        else:
            g["final_states"] = []
    return g


def zero_division_game():
    return {"rewards": [1, 2, 0, 0],
            "players": [P1, PR, PR, PR],
            "transition_list": [[("x", 1), ("y", 2)], [(0, 2), (1.0, 3)], [(1, 2)], [(1, 3)]],
            "final_states": [2]}


def break_game(rng, g):
    """Return a damaged copy of a well-formed game."""
    g = copy.deepcopy(g)
    if isinstance(g["transition_list"], tuple):
        g["transition_list"] = list(g["transition_list"])
    if isinstance(g["rewards"], tuple):
        g["rewards"] = list(g["rewards"])
    n = len(g["players"])
    tl = g["transition_list"]
    s = rng.randrange(n)
    choice = rng.randrange(27)
    if choice == 0:
        tl.append([("extra", 0)])
    elif choice == 1:
        tl.pop()
    elif choice == 2:
        g["rewards"].append(1)
    elif choice == 3:
        g["rewards"][s] = -1
    elif choice == 4:
        g["final_states"] = g["final_states"] + [n]
    elif choice == 5:
        g["final_states"] = [-1] + g["final_states"]
    elif choice == 6:
        g["players"][s] = rng.choice(["player 1", "Player 3", "", None, 1])
    elif choice == 7:
        g["final_states"] = []
    elif choice == 8:
        tl[s] = []
    elif choice == 9:
        tl[s] = tuple(tl[s])
    elif choice == 10:
        tl[s] = [list(t) for t in tl[s]]
    elif choice == 11:
        tl[s] = [t + (0,) for t in tl[s]]
    elif choice == 12:
        tl[s] = [(3, t[1]) if g["players"][s] != PR else ("p", t[1]) for t in tl[s]]
    elif choice == 13:
        tl[s] = [(t[0], float(t[1])) for t in tl[s]]
    elif choice == 14:
        tl[s] = tl[s] + [(tl[s][0][0], n)]
    elif choice == 15:
        tl[s] = tl[s] + [(tl[s][0][0], -1)]
    elif choice == 16:
        g = {"rewards": [], "players": [], "transition_list": [], "final_states": [0]}
    elif choice == 17:
        del g[rng.choice(["rewards", "players", "transition_list", "final_states"])]
    elif choice == 18:
        g["bonus"] = 1
    elif choice == 19:
        g["rewards"][s] = "1"
    elif choice == 20:
        g["final_states"] = None
    elif choice == 21:
        g = rng.choice([None, [], [1, 2], "game", 5, ("rewards",)])
    elif choice == 22:
        g = no_solution_game(rng)
    elif choice == 23:
        g = zero_division_game()
    elif choice == 24:
        tl[s] = None
    elif choice == 25:
        g["transition_list"] = None
    elif choice == 26:
        g["players"] = None
    return g


def build_candidates():
    rng = random.Random(SEED)
    well = [gen_game(rng) for _ in range(N_WELL)]
    wild = [gen_game(rng, wild=True) for _ in range(N_WILD)]
    bad = [break_game(rng, rng.choice(well)) for _ in range(N_BAD)]
    fixed = [zero_division_game(), None, [], {},
             {"rewards": [0], "players": [P1], "transition_list": [[("s", 0)]], "final_states": [0]},
             {"rewards": [0], "players": [PR], "transition_list": [[(1, 0)]], "final_states": [0]},
             {"rewards": [3], "players": [P2], "transition_list": [[("s", 0)]], "final_states": []}]
    return well + wild + bad + fixed


# --------------------------------------------------------------------------- #
# stage 1: filter (clean tree)

def stage_filter(tree, out_path):
    sys.path.insert(0, tree)
    import tad
    logging.getLogger().addHandler(logging.NullHandler())
    kept = []
    dropped = 0
    deadline = time.time() + 30
    for g in build_candidates():
        ok = True
        if isinstance(g, dict) and time.time() < deadline:
            for prune in (True, False):
                gc = copy.deepcopy(g)
                gc["prune_states"] = prune
                t0 = time.time()
                try:
                    with alarm_guard(SOLVE_CAP):
                        tad.StochasticGame(**gc).solve()
                except _Timeout:
                    ok = False
                except Exception:
                    pass
                if time.time() - t0 > SOLVE_ACCEPT:
                    ok = False
                if not ok:
                    break
        elif isinstance(g, dict):
            ok = False
        if ok:
            kept.append(g)
        else:
            dropped += 1
    with open(out_path, "wb") as fh:
        pickle.dump(kept, fh)
    sys.stderr.write("filter: kept %d games, dropped %d slow / non-stopping\n" % (len(kept), dropped))


# --------------------------------------------------------------------------- #
# stage 2: worker (one per tree)

TIME_LINE = re.compile(r"(Total time\s*: ).*$", re.M)
ASCTIME = re.compile(r"^\d{4}-\d\d-\d\d \d\d:\d\d:\d\d,\d{3} - ", re.M)


class Capture(logging.Handler):
    def __init__(self):
        super().__init__(level=0)
        self.records = []

    def emit(self, record):
        self.records.append((record.levelname, TIME_LINE.sub(r"\1<t>", record.getMessage())))


def norm_value(key, value):
    if key == "total_time":
        return "<%s>" % type(value).__name__
    return repr(value)


def norm_result(res):
    if not isinstance(res, dict):
        return ("non-dict", repr(res))
    out = []
    for name, entry in res.items():
        if isinstance(entry, dict):
            out.append((repr(name), [(k, norm_value(k, v)) for k, v in entry.items()]))
        else:
            out.append((repr(name), repr(entry)))
    return out


def snapshot_outputs():
    snap = {}
    if os.path.isdir("outputs"):
        for fn in sorted(os.listdir("outputs")):
            with open(os.path.join("outputs", fn), "rb") as fh:
                snap[fn] = fh.read()
            os.remove(os.path.join("outputs", fn))
    return sorted(snap.items())


def call(fn, *args):
    try:
        with alarm_guard(BATCH_CAP):
            return ("ok", fn(*args))
    except _Timeout:
        return ("timeout", None)
    except BaseException as e:  # noqa
        return ("exc", (type(e).__name__, str(e)))


NAMES = ["g0", "g1", "g2", "g3", "g4", "g5", "g1_no_prune", "g2_no_prune", "",
         "_no_prune", "x y", "g0_no_prune_no_prune", "G", "\u00e9t\u00e9"]
ODD_NAMES = [7, ("t",), None, 2.5, b"bytes", True]


def make_batch(rng, pool, failing_idx, solvable_idx):
    """A list of (name, pool index) pairs; names may collide via the suffix."""
    size = rng.choice([0, 1, 1, 2, 2, 3, 3, 3, 4, 4, 5, 6, 8])
    pairs = []
    names = rng.sample(NAMES, min(size, len(NAMES)))
    for i in range(size):
        r = rng.random()
        if r < 0.35 and failing_idx:
            idx = rng.choice(failing_idx)
        elif r < 0.9 and solvable_idx:
            idx = rng.choice(solvable_idx)
        else:
            idx = rng.randrange(len(pool))
        name = names[i]
        if rng.random() < 0.02:
            name = rng.choice(ODD_NAMES)
        pairs.append((name, idx))
    return pairs


def materialise(pool, pairs, alias=False):
    if alias:
        # the same game object may appear under two names
        cache = {}
        d = {}
        for name, idx in pairs:
            if idx not in cache:
                cache[idx] = copy.deepcopy(pool[idx])
            d[name] = cache[idx]
        return d
    return {name: copy.deepcopy(pool[idx]) for name, idx in pairs}


def stage_worker(tree, pool_path, out_path):
    tree = os.path.abspath(tree)
    sys.path.insert(0, tree)
    work = tempfile.mkdtemp(prefix="f12w_")
    os.chdir(work)
    os.mkdir("outputs")
    import conditionalrewards as cr
    import tad
    assert os.path.dirname(os.path.abspath(cr.__file__)) == tree
    with open(pool_path, "rb") as fh:
        pool = pickle.load(fh)

    root = logging.getLogger()
    cap = Capture()
    root.addHandler(cap)
    root.setLevel(logging.INFO)

    rec = []

    def add(label, payload):
        rec.append((label, payload))

    # classify the pool by solving alone (with this tree - classification only steers
    # the batch composition, and it is recorded, so a difference shows up here first)
    failing_idx, solvable_idx = [], []
    for i, g in enumerate(pool):
        status = "other"
        if isinstance(g, dict):
            gc = copy.deepcopy(g)
            gc["prune_states"] = True
            try:
                tad.StochasticGame(**gc).solve()
                status = "solved"
            except ValueError:
                status = "valueerror"
            except Exception:
                status = "other"
        if status == "solved":
            solvable_idx.append(i)
        elif status == "valueerror":
            failing_idx.append(i)
    add("classification", (len(pool), solvable_idx, failing_idx))
    cap.records.clear()

    rng = random.Random(SEED + 1)
    n_runs = 0

    def run(label, games, save_as=None):
        nonlocal n_runs
        n_runs += 1
        cap.records.clear()
        status, res = call(cr.run_games, games)
        payload = {"status": status,
                   "result": norm_result(res) if status == "ok" else res,
                   "input_after": repr(games),
                   "logs": list(cap.records)}
        if status == "ok" and save_as is not None and isinstance(res, dict):
            for entry in res.values():
                if isinstance(entry, dict) and "total_time" in entry:
                    entry["total_time"] = 0.25
            cap.records.clear()
            s2, r2 = call(cr.save_results_to_file, res, save_as)
            payload["save"] = (s2, repr(r2), snapshot_outputs(), list(cap.records))
        add(label, payload)

    file_names = ["inputs/batch.py", "batch", "a/b/c.d.e", "x.tar.gz", "/abs/path/f.py", "rel\\win.py"]

    for b in range(N_BATCHES):
        pairs = make_batch(rng, pool, failing_idx, solvable_idx)
        root.setLevel(logging.DEBUG if b % 9 == 0 else logging.INFO)
        alias = (b % 11 == 0)
        run("batch %d" % b, materialise(pool, pairs, alias), rng.choice(file_names))
        if b % 3 == 0:
            run("batch %d reversed" % b, materialise(pool, pairs[::-1]), "rev.py")
        if b % 4 == 0 and len(pairs) > 1:
            sub = [p for p in pairs if rng.random() < 0.6]
            run("batch %d subset" % b, materialise(pool, sub), "sub.py")
            rng.shuffle(sub)
            run("batch %d subset shuffled" % b, materialise(pool, sub), "sub.py")
        if b % 5 == 0:
            for j, p in enumerate(pairs):
                run("batch %d solo %d" % (b, j), materialise(pool, [p]), None)
    root.setLevel(logging.INFO)

    # a failing game before, between and after solvable ones - every position
    if failing_idx and solvable_idx:
        for t in range(60):
            fidx = rng.choice(failing_idx)
            sol = [rng.choice(solvable_idx) for _ in range(3)]
            for pos in range(4):
                seq = sol[:pos] + [fidx] + sol[pos:]
                pairs = [("n%d" % k, idx) for k, idx in enumerate(seq)]
                run("failing %d at %d" % (t, pos), materialise(pool, pairs), "pos.py")
        for t in range(20):
            seq = [rng.choice(failing_idx), rng.choice(failing_idx), rng.choice(solvable_idx),
                   rng.choice(failing_idx)]
            run("many failing %d" % t,
                materialise(pool, [("m%d" % k, i) for k, i in enumerate(seq)]), "mf.py")

    # the same dictionary run twice (second run starts from the first run's leftovers)
    for t in range(40):
        pairs = make_batch(rng, pool, failing_idx, solvable_idx)
        games = materialise(pool, pairs)
        run("twice %d first" % t, games, None)
        run("twice %d second" % t, games, None)

    # inputs that are not dictionaries of games
    for k, odd in enumerate([[], None, "abc", 3, [("a", {})], {"a": None}, {"a": []}, {"a": {}},
                             {1: pool[solvable_idx[0]] if solvable_idx else {}},
                             {("t",): pool[solvable_idx[0]] if solvable_idx else {}}]):
        run("odd input %d" % k, copy.deepcopy(odd), None)
    add("n_runs", n_runs)

    # save_results_to_file, crafted
    full = {"n_states": 2, "n_transitions": 3, "n_iterations_reach": 4, "n_iterations_rew": 5,
            "reachability_strategies": [["a"], None], "final_strategies": [["a"], None],
            "total_time": 1.5, "msg": "Game solved", "rewards": [1.0, 0], "rew_min_reach": [1, 0],
            "probabilities": [0.5, 1], "prob_min_rew": [0.5, 1]}
    crafted = [({}, "empty.py"), ({"g": dict(full)}, "one.py"),
               ({"g": dict(full), "h": dict(full, msg="multi\nline", final_strategies=[["b"], None])}, "d/two.x.y")]
    for key in list(full):
        e = dict(full)
        del e[key]
        crafted.append(({"first": dict(full), "broken": e, "last": dict(full)}, "missing_%s.py" % key))
    crafted += [({"g": None}, "none.py"), ([], "list.py"), ({"g": dict(full)}, None),
                ({"g": dict(full)}, ""), ({"g": dict(full)}, ".hidden"), ({"g": dict(full)}, "dir/"),
                ({3: dict(full), None: dict(full)}, "names.py"),
                ({"g": dict(full, extra=1)}, "extra.py")]
    for k, (gr, fn) in enumerate(crafted):
        cap.records.clear()
        s, r = call(cr.save_results_to_file, gr, fn)
        add("save crafted %d" % k, (s, repr(r), snapshot_outputs(), list(cap.records)))
    os.rmdir("outputs")
    s, r = call(cr.save_results_to_file, {"g": dict(full)}, "nodir.py")
    add("save without outputs dir", (s, repr(r), sorted(os.listdir("."))))
    os.mkdir("outputs")

    # read_dict_from_file
    contents = ["{}", "{'a': 1}", "[1, 2]", "", "{", "dict(a=1)", "None", "{'names': sorted(locals())}",
                "{'a': {'rewards': [1]}}  # comment", "1/0", "{'x': undefined_name}", "\n\n{\n}\n"]
    for k, text in enumerate(contents):
        with open("rd_%d.py" % k, "w") as fh:
            fh.write(text)
        s, r = call(cr.read_dict_from_file, "rd_%d.py" % k)
        add("read %d" % k, (s, repr(r)))
    s, r = call(cr.read_dict_from_file, "does_not_exist.py")
    add("read missing", (s, repr(r)))

    # set_logger (the root logger already has a handler, so basicConfig is inert here;
    # the real thing is exercised by the command line runs of the driver)
    for lvl in [None, 0, "", "i", "INFO", "d", "DEBUG", "dd", "FULL_DEBUG", "bogus", "info", 20, logging.INFO]:
        s, r = call(cr.set_logger, lvl)
        add("set_logger %r" % (lvl,), (s, repr(r), root.level, len(root.handlers)))
    s, r = call(cr.set_logger)
    add("set_logger default", (s, repr(r)))

    # parser
    parser = cr.init_parser()
    add("parser help", parser.format_help())
    for argv in (["-f", "x"], ["--file", "x", "-s", "-l", "d"], ["-f", "x", "--log_level", "zz", "--save_results"]):
        add("parse %r" % (argv,), repr(sorted(vars(parser.parse_args(argv)).items())))

    add("public names", sorted(n for n in dir(cr) if not n.startswith("_")
                               and callable(getattr(cr, n)) and getattr(getattr(cr, n), "__module__", None) == cr.__name__
                               and n in ("save_results_to_file", "read_dict_from_file", "run_games",
                                         "set_logger", "init_parser", "main")))

    with open(out_path, "wb") as fh:
        pickle.dump(rec, fh)
    os.chdir("/")
    shutil.rmtree(work, ignore_errors=True)


# --------------------------------------------------------------------------- #
# stage 2b: command line runs (driven from the main process, per tree)

def strip_traceback(text, tree):
    out = []
    in_tb = False
    for line in text.split("\n"):
        if line.startswith("Traceback (most recent call last):"):
            in_tb = True
            out.append("<traceback>")
            continue
        if in_tb and (line.startswith("  ") or line.strip() == ""):
            continue
        in_tb = False
        out.append(line)
    text = "\n".join(out).replace(tree, "<TREE>")
    text = TIME_LINE.sub(r"\1<t>", text)
    text = ASCTIME.sub("<asctime> - ", text)
    return text


def cli_runs(tree, pool, plan):
    tree = os.path.abspath(tree)
    rec = []
    work = tempfile.mkdtemp(prefix="f12c_")
    try:
        for k, (label, source, args, with_outputs) in enumerate(plan):
            cwd = os.path.join(work, "run%d" % k)
            os.mkdir(cwd)
            if with_outputs:
                os.mkdir(os.path.join(cwd, "outputs"))
            if source[0] == "text":
                path = os.path.join(cwd, source[1])
                with open(path, "w") as fh:
                    fh.write(source[2])
                farg = source[1]
            else:
                farg = os.path.join(tree, "inputs", source[1])
            cmd = [sys.executable, os.path.join(tree, "conditionalrewards.py"), "-f", farg] + args
            try:
                p = subprocess.run(cmd, cwd=cwd, capture_output=True, text=True, timeout=60)
                rc, so, se = p.returncode, p.stdout, p.stderr
            except subprocess.TimeoutExpired:
                rc, so, se = "timeout", "", ""
            files = {}
            odir = os.path.join(cwd, "outputs")
            if os.path.isdir(odir):
                for fn in sorted(os.listdir(odir)):
                    with open(os.path.join(odir, fn), "rb") as fh:
                        files[fn] = TIME_LINE.sub(r"\1<t>", fh.read().decode("utf-8", "replace"))
            rec.append(("cli " + label, (rc, strip_traceback(so, tree), strip_traceback(se, tree),
                                         sorted(files.items()))))
    finally:
        shutil.rmtree(work, ignore_errors=True)
    return rec


def cli_plan(pool):
    rng = random.Random(SEED + 2)
    dicts = [g for g in pool if isinstance(g, dict)]

    def text_of(n, with_bad=True):
        games = {}
        for j in range(n):
            games["game_%d" % j] = rng.choice(dicts)
        return "# generated\n" + repr(games) + "\n"

    plan = []
    for k in range(8):
        plan.append(("random %d -s" % k, ("text", "rand_%d.py" % k, text_of(rng.randint(1, 6))), ["-s"], True))
    plan.append(("random -s -l i", ("text", "li.py", text_of(4)), ["-s", "-l", "i"], True))
    plan.append(("random -s -l d", ("text", "ld.py", text_of(3)), ["-s", "-l", "d"], True))
    plan.append(("random -s -l dd", ("text", "ldd.py", text_of(2)), ["--save_results", "--log_level", "dd"], True))
    plan.append(("random -l INFO no save", ("text", "ns.py", text_of(3)), ["-l", "INFO"], True))
    plan.append(("random no flags", ("text", "nf.py", text_of(5)), [], True))
    plan.append(("bad level", ("text", "bl.py", text_of(1)), ["-l", "verbose"], True))
    plan.append(("no outputs dir", ("text", "nod.py", text_of(2)), ["-s"], False))
    plan.append(("not a dict", ("text", "nd.py", "[1, 2, 3]\n"), ["-s"], True))
    plan.append(("empty dict", ("text", "ed.py", "{}\n"), ["-s"], True))
    plan.append(("syntax error", ("text", "se.py", "{'a': \n"), ["-s"], True))
    plan.append(("game missing key", ("text", "mk.py",
                 repr({"ok": dicts[0], "broken": {"rewards": [1]}, "later": dicts[1]})), ["-s"], True))
    plan.append(("game is list", ("text", "gl.py", repr({"ok": dicts[0], "broken": [1, 2]})), ["-s"], True))
    plan.append(("zero division", ("text", "zd.py",
                 repr({"ok": dicts[0], "zd": zero_division_game(), "later": dicts[1]})), ["-s", "-l", "i"], True))
    plan.append(("dotted name", ("text", "v1.2.games.py", text_of(2)), ["-s"], True))
    for name in ("example_games.py", "paper_games.py", "example_17_08.py", "manual_1_game_a.py"):
        plan.append(("shipped " + name, ("tree", name), ["-s"], True))
    plan.append(("shipped example_games -l i", ("tree", "example_games.py"), ["-l", "i"], True))
    return plan


# --------------------------------------------------------------------------- #
# main

def short(x, limit=1500):
    s = repr(x)
    return s if len(s) <= limit else s[:limit] + " ...[%d chars]" % len(s)


def first_diff(a, b, path=""):
    """Descend to the first differing leaf of two recordings."""
    if type(a) is type(b) and isinstance(a, dict):
        for k in list(a) + [k for k in b if k not in a]:
            if k not in a or k not in b:
                return path + "[%r]" % (k,), a.get(k, "<absent>"), b.get(k, "<absent>")
            if a[k] != b[k]:
                return first_diff(a[k], b[k], path + "[%r]" % (k,))
    if type(a) is type(b) and isinstance(a, (list, tuple)):
        for i, (x, y) in enumerate(zip(a, b)):
            if x != y:
                return first_diff(x, y, path + "[%d]" % i)
        if len(a) != len(b):
            return path + " (length %d vs %d)" % (len(a), len(b)), a[len(b):][:1], b[len(a):][:1]
    return path, a, b


def main():
    if len(sys.argv) >= 2 and sys.argv[1] == "--filter":
        stage_filter(sys.argv[2], sys.argv[3])
        return 0
    if len(sys.argv) >= 2 and sys.argv[1] == "--worker":
        stage_worker(sys.argv[2], sys.argv[3], sys.argv[4])
        return 0
    if len(sys.argv) != 3:
        print(__doc__)
        return 2
    clean, patched = os.path.abspath(sys.argv[1]), os.path.abspath(sys.argv[2])
    t0 = time.time()
    tmp = tempfile.mkdtemp(prefix="f12m_")
    env = dict(os.environ, PYTHONDONTWRITEBYTECODE="1", PYTHONHASHSEED="0")
    try:
        pool_path = os.path.join(tmp, "pool.pkl")
        subprocess.run([sys.executable, __file__, "--filter", clean, pool_path], check=True,
                       env=env, timeout=70)
        with open(pool_path, "rb") as fh:
            pool = pickle.load(fh)
        outs = [os.path.join(tmp, "clean.pkl"), os.path.join(tmp, "patched.pkl")]
        procs = [subprocess.Popen([sys.executable, __file__, "--worker", tree, pool_path, out], env=env)
                 for tree, out in zip((clean, patched), outs)]
        plan = cli_plan(pool)
        cli = [cli_runs(tree, pool, plan) for tree in (clean, patched)]
        for name, p in zip(("clean", "patched"), procs):
            try:
                rc = p.wait(timeout=max(5, 112 - (time.time() - t0)))
            except subprocess.TimeoutExpired:
                for q in procs:
                    q.kill()
                print("DIFFERENT: worker for the %s tree did not finish in time" % name)
                return 1
            if rc != 0:
                for q in procs:
                    q.kill()
                print("DIFFERENT: worker for the %s tree failed with exit status %s" % (name, rc))
                return 1
        recs = []
        for out, extra in zip(outs, cli):
            with open(out, "rb") as fh:
                recs.append(pickle.load(fh) + extra)
    finally:
        shutil.rmtree(tmp, ignore_errors=True)
    a, b = recs
    for i, (x, y) in enumerate(zip(a, b)):
        if x != y:
            where, va, vb = first_diff(x, y, "item %d %r" % (i, x[0]))
            print("DIFFERENT at %s" % where)
            print("  clean  : %s" % short(va))
            print("  patched: %s" % short(vb))
            return 1
    if len(a) != len(b):
        print("DIFFERENT: %d recorded items for clean, %d for patched" % (len(a), len(b)))
        return 1
    n_runs = dict((k, v) for k, v in a if k == "n_runs").get("n_runs")
    sys.stderr.write("compared %d recorded items (%s run_games calls, %d command line runs) in %.1f s\n"
                     % (len(a), n_runs, len(plan), time.time() - t0))
    print("SAME")
    return 0


if __name__ == "__main__":
    sys.exit(main())
