#!/usr/bin/env python
"""
Equivalence test for property C09 (malformed games are rejected with ValueError).

usage:  python equiv_test.py <path-to-patched-root> <path-to-clean-root>

Both trees are loaded in separate subprocesses (this same file, --worker mode).
Each worker runs the same deterministic list of cases and writes one line per
case ("case id <TAB> outcome").  The parent compares the two files; it prints
PASS and exits 0 when nothing differs, FAIL (with the first differences) and
exits 1 otherwise.

Cases (aimed at the property's quantifier):
  * a few hundred random well-formed games (cycles through probabilistic
    states, several finals, dead states, ties, absorbing / non absorbing
    finals), solved in both pruning modes;
  * for every such game, every well-formedness rule broken at every position
    (state, transition, tuple slot), boundary values n and -1 included, plus
    random pairs of violations (which message wins);
  * for each case: solve() in both pruning modes, check_game() alone,
    init_states() alone (node summary), and that the description is not altered;
  * Node constructors called directly with malformed transition lists;
  * conditionalrewards.run_games on dictionaries mixing good and malformed
    games: result dicts, the error log lines, and the written report file.

Outcome = repr() of the result, or exception type + message.  Every solve has
a deterministic budget (a bound on the number of value-iteration rounds,
counted through the solver's own logging.debug("iteration i") calls), because
the clean tree does not converge on some non-stopping games.
"""
import hashlib
import os
import random
import shutil
import subprocess
import sys
import tempfile
import time as _time

ITERATION_BUDGET = 160          # value-iteration rounds per solve
N_GAMES = 300                   # random well-formed base games
N_FULL = 60                     # games with exhaustive positional mutations
N_SAMPLED = 80                  # mutations sampled for the other games
N_PAIRS = 25                    # random pairs of violations per game
SEED = 90917

P1, P2, PR = "Player 1", "Player 2", "Probabilistic"


class Budget(BaseException):
    """Raised from the patched logging.debug when a solve runs too long."""


# --------------------------------------------------------------------------
# random well-formed games
# --------------------------------------------------------------------------

def random_probs(rng, k):
    style = rng.randrange(4)
    if k == 1:
        return [rng.choice([1, 1.0])]
    if style == 0:
        return [1 / k] * k
    if style == 1 and k == 2:
        return rng.choice([[0.5, 0.5], [0.25, 0.75], [0.9, 0.1], [1e-6, 1 - 1e-6]])
    if style == 2 and k == 3:
        return rng.choice([[0.5, 0.25, 0.25], [0.2, 0.3, 0.5], [0.98, 0.01, 0.01]])
    raw = [rng.random() + 0.01 for _ in range(k)]
    total = sum(raw)
    return [x / total for x in raw]


def random_game(rng):
    n = rng.choice([1, 2, 2, 3, 3, 4, 4, 5, 5, 6, 6, 7, 8, 9, 11])
    n_final = min(n, rng.choice([1, 1, 1, 2, 2, 3]))
    finals = rng.sample(range(n), n_final)
    rng.shuffle(finals)
    n_dead = rng.choice([0, 0, 1, 2]) if n - n_final > 1 else 0
    dead = rng.sample([s for s in range(n) if s not in finals], n_dead) if n_dead else []
    absorbing_finals = rng.random() < 0.8
    wild = rng.random() < 0.12
    rank = list(range(n))
    rng.shuffle(rank)
    float_rewards = rng.random() < 0.3
    players, transitions, rewards = [], [], []
    for s in range(n):
        if (s in finals and absorbing_finals) or s in dead:
            kind = rng.choice([PR, PR, P1, P2])
            players.append(kind)
            transitions.append([(1, s)] if kind == PR else [(rng.choice("ab"), s)])
            rewards.append(0 if rng.random() < 0.95 else rng.randrange(1, 4))
            continue
        kind = rng.choice([P1, P2, PR, PR])
        players.append(kind)
        k = rng.choice([1, 2, 2, 3]) if n > 1 else 1
        # mostly "stopping" games: successors are later in a random order or
        # absorbing; cycles go through probabilistic states.  "wild" games
        # have arbitrary successors (many of them do not converge).
        later = [x for x in range(n) if rank[x] > rank[s]] or finals
        succ = []
        for position in range(k):
            if wild:
                succ.append(rng.randrange(n))
            elif kind == PR and position > 0 and rng.random() < 0.5:
                succ.append(rng.randrange(n))           # back edge / self loop
            elif rng.random() < 0.3:
                succ.append(rng.choice(finals + dead))
            else:
                succ.append(rng.choice(later))
        if kind == PR:
            probs = random_probs(rng, k)
            transitions.append(list(zip(probs, succ)))
        else:
            names = rng.sample(["alfa", "beta", "gamma", "x", "y"], k)
            if k > 1 and rng.random() < 0.1:
                names[1] = names[0]         # duplicated action name
            transitions.append(list(zip(names, succ)))
        if float_rewards:
            rewards.append(rng.choice([0, 0.5, 1.25, 5 / 3, 2.0]))
        else:
            rewards.append(rng.choice([0, 0, 1, 1, 2, 3]))       # ties are frequent
    if rng.random() < 0.15:
        finals = finals + [finals[0]]       # duplicated final index
    return {"rewards": rewards, "players": players,
            "transition_list": transitions, "final_states": finals}


def copy_game(game):
    out = {}
    for key, value in game.items():
        if key == "transition_list" and isinstance(value, list):
            out[key] = [list(t) if isinstance(t, list) else t for t in value]
        elif isinstance(value, list):
            out[key] = list(value)
        else:
            out[key] = value
    return out


# --------------------------------------------------------------------------
# mutations: (label, function mutating a game dict in place)
# --------------------------------------------------------------------------

def mutations_of(game):
    from fractions import Fraction
    n = len(game["players"])
    muts = []

    def add(label, fn):
        muts.append((f"m{len(muts)} {label}", fn))      # the number keeps case ids unique

    def setter(key, idx, value):
        def fn(g):
            g[key][idx] = value
        return fn

    def set_key(key, value_fn):
        def fn(g):
            g[key] = value_fn(g[key])
        return fn

    def set_transition(s, t, value_fn):
        def fn(g):
            g["transition_list"][s][t] = value_fn(g["transition_list"][s][t])
        return fn

    # --- list lengths
    add("rewards-drop-last", set_key("rewards", lambda v: v[:-1]))
    add("rewards-drop-first", set_key("rewards", lambda v: v[1:]))
    add("rewards-extra", set_key("rewards", lambda v: v + [0]))
    add("rewards-empty", set_key("rewards", lambda v: []))
    add("rewards-tuple", set_key("rewards", lambda v: tuple(v)))
    add("transitions-drop-last", set_key("transition_list", lambda v: v[:-1]))
    add("transitions-extra-empty", set_key("transition_list", lambda v: v + [[]]))
    add("transitions-extra", set_key("transition_list", lambda v: v + [[(1, 0)]]))
    add("transitions-empty", set_key("transition_list", lambda v: []))
    add("players-drop-last", set_key("players", lambda v: v[:-1]))
    add("players-extra", set_key("players", lambda v: v + [P1]))
    add("players-empty", set_key("players", lambda v: []))

    def all_empty(g):
        g["players"], g["rewards"], g["transition_list"] = [], [], []
    add("all-empty", all_empty)

    def all_empty_no_final(g):
        all_empty(g)
        g["final_states"] = []
    add("all-empty-no-final", all_empty_no_final)

    # --- per state
    for s in range(n):
        for value in (-1, -0.5, -1e-9, -0.0, float("-inf"), float("nan"), None, "x", True):
            add(f"reward[{s}]={value!r}", setter("rewards", s, value))
        for value in ("Player 3", "player 1", "", None, 1, ["Player 1"], "Probabilistic ",
                      ("Player 1",)):
            add(f"player[{s}]={value!r}", setter("players", s, value))
        other = {P1: PR, P2: PR, PR: P2}[game["players"][s]]
        add(f"player[{s}]-swapped-kind", setter("players", s, other))
        original = game["transition_list"][s]
        for value in ([], None, (), 0, "", tuple(original), dict(original) if all(
                isinstance(t, tuple) and len(t) == 2 for t in original) else {}, "ab",
                frozenset(), 3.5, [None], [()]):
            add(f"transitions[{s}]={value!r}", setter("transition_list", s, value))
        add(f"transitions[{s}]+bad-last",
            set_key("transition_list", lambda v, s=s: v[:s] + [v[s] + [(v[s][0][0], n)]] + v[s + 1:]))
        add(f"transitions[{s}]+neg-last",
            set_key("transition_list", lambda v, s=s: v[:s] + [v[s] + [(v[s][0][0], -1)]] + v[s + 1:]))
        add(f"transitions[{s}]+list-last",
            set_key("transition_list", lambda v, s=s: v[:s] + [v[s] + [list(v[s][0])]] + v[s + 1:]))

        # --- per transition
        for t in range(len(original)):
            where = f"transition[{s}][{t}]"
            add(f"{where}->list", set_transition(s, t, lambda x: list(x)))
            add(f"{where}->3tuple", set_transition(s, t, lambda x: x + (0,)))
            add(f"{where}->1tuple", set_transition(s, t, lambda x: x[:1]))
            add(f"{where}->0tuple", set_transition(s, t, lambda x: ()))
            add(f"{where}->None", set_transition(s, t, lambda x: None))
            add(f"{where}->int", set_transition(s, t, lambda x: 7))
            add(f"{where}->str2", set_transition(s, t, lambda x: "ab"))
            add(f"{where}->nested", set_transition(s, t, lambda x: [x]))
            add(f"{where}->swapped", set_transition(s, t, lambda x: (x[1], x[0])))
            first_values = [1, None, 0.5, b"a", ("a",), True, "0.5", [0.5], 0.5j,
                            Fraction(1, 2), "a", 0, -1, 2.5]
            for value in first_values:
                add(f"{where}.first={value!r}",
                    set_transition(s, t, lambda x, value=value: (value, x[1])))
            second_values = [n, -1, n + 1, -n, -n - 1, 10 ** 9, -10 ** 9, 1.0, "1", None, 1.5,
                             [1], True, False, float(n), n - 1, 0, "a", (0,)]
            for value in second_values:
                add(f"{where}.second={value!r}",
                    set_transition(s, t, lambda x, value=value: (x[0], value)))

    # --- final states
    finals = game["final_states"]
    for k in range(len(finals)):
        for value in (n, -1, n + 1, -n, 1.5, True, "0", None, n - 1, 0, float(n), -0.5):
            add(f"final[{k}]={value!r}", setter("final_states", k, value))
    for value in (n, -1, n + 7, -n - 1):
        add(f"finals-append-{value}", set_key("final_states", lambda v, value=value: v + [value]))
        add(f"finals-prepend-{value}", set_key("final_states", lambda v, value=value: [value] + v))
        add(f"finals-only-{value}", set_key("final_states", lambda v, value=value: [value]))
    add("finals-empty", set_key("final_states", lambda v: []))
    add("finals-empty-tuple", set_key("final_states", lambda v: ()))
    add("finals-tuple", set_key("final_states", lambda v: tuple(v)))
    add("finals-set", set_key("final_states", lambda v: set(v)))
    add("finals-None", set_key("final_states", lambda v: None))
    add("finals-int", set_key("final_states", lambda v: v[0]))
    add("finals-all", set_key("final_states", lambda v: list(range(n))))
    add("finals-all-plus-n", set_key("final_states", lambda v: list(range(n + 1))))
    return muts


# --------------------------------------------------------------------------
# worker
# --------------------------------------------------------------------------

def worker(root, out_path):
    root = os.path.realpath(root)
    sys.path.insert(0, root)
    workdir = tempfile.mkdtemp(prefix="c09_equiv_")
    os.mkdir(os.path.join(workdir, "outputs"))
    os.chdir(workdir)

    import logging
    import tad
    import conditionalrewards
    for module in (tad, conditionalrewards):
        assert os.path.realpath(module.__file__).startswith(root + os.sep), module.__file__

    counter = {"iterations": 0}
    log_lines = []

    def counting_debug(msg, *args, **kwargs):
        if isinstance(msg, str) and msg.startswith("iteration"):
            counter["iterations"] += 1
            if counter["iterations"] > ITERATION_BUDGET:
                raise Budget()

    def recording(level):
        def record(msg, *args, **kwargs):
            log_lines.append(f"{level}:{msg}")
        return record

    logging.debug = counting_debug
    logging.info = recording("INFO")
    logging.error = recording("ERROR")
    logging.warning = recording("WARNING")

    out = open(out_path, "w")

    def emit(case_id, outcome):
        outcome = outcome.replace("\n", "\\n")
        if len(outcome) > 600:
            outcome = outcome[:300] + "...sha1=" + hashlib.sha1(outcome.encode()).hexdigest()
        out.write(f"{case_id}\t{outcome}\n")

    def attempt(fn):
        counter["iterations"] = 0
        try:
            return "OK " + repr(fn())
        except Budget:
            return "BUDGET"
        except Exception as exc:        # noqa: BLE001 - the outcome IS the exception
            return f"EXC {type(exc).__name__}: {exc}"

    def node_summary(nodes):
        return [(type(node).__name__, node.player, node.idx, node.reward, node.next_states,
                 node.is_final_node, node.reach_probability, node.expected_rewards,
                 node.expected_rewards_min_reach, node.expected_reach_min_rewards,
                 node.num_states) for node in nodes]

    def run_case(case_id, game, full=True):
        """All observations for one game description."""
        before = repr(game)
        for prune in (True, False):
            emit(f"{case_id}|solve prune={prune}",
                 attempt(lambda: tad.StochasticGame(prune_states=prune, **game).solve()))
        emit(f"{case_id}|solve default", attempt(lambda: tad.StochasticGame(**game).solve()))
        if full:
            emit(f"{case_id}|check_game", attempt(lambda: tad.StochasticGame(**game).check_game()))
            emit(f"{case_id}|init_states",
                 attempt(lambda: node_summary(tad.StochasticGame(**game).init_states())))
            emit(f"{case_id}|count_transitions",
                 attempt(lambda: tad.StochasticGame(**game).count_transitions()))
        emit(f"{case_id}|unaltered", repr(repr(game) == before))

    rng = random.Random(SEED)
    base_games = [random_game(rng) for _ in range(N_GAMES)]
    solvable = []
    stats = {"cases": 0, "budget": 0}

    for g_idx, base in enumerate(base_games):
        gid = f"g{g_idx}"
        run_case(f"{gid}|base", copy_game(base))
        probe = [attempt(lambda: tad.StochasticGame(prune_states=p, **copy_game(base)).solve())
                 for p in (True, False)]
        if probe[0].startswith("OK") and probe[1].startswith("OK"):
            solvable.append(g_idx)
        stats["budget"] += sum(p == "BUDGET" for p in probe)

        muts = mutations_of(base)
        mrng = random.Random(SEED * 1000 + g_idx)
        chosen = muts if g_idx < N_FULL else mrng.sample(muts, min(N_SAMPLED, len(muts)))
        for label, fn in chosen:
            game = copy_game(base)
            try:
                fn(game)
            except Exception as exc:    # the mutation itself does not apply
                emit(f"{gid}|{label}", f"SKIP {type(exc).__name__}")
                continue
            run_case(f"{gid}|{label}", game, full=(g_idx % 2 == 0))
            stats["cases"] += 1
        for p_idx in range(N_PAIRS):
            (label_a, fn_a), (label_b, fn_b) = mrng.sample(muts, 2)
            game = copy_game(base)
            try:
                fn_a(game)
                fn_b(game)
            except Exception as exc:
                emit(f"{gid}|pair{p_idx}", f"SKIP {type(exc).__name__}")
                continue
            run_case(f"{gid}|pair{p_idx} {label_a} + {label_b}", game, full=(p_idx % 3 == 0))
            stats["cases"] += 1

    # ---- node constructors called directly
    bad_lists = [
        None, (), [], "ab", ((0.5, 1),), [None], [[0.5, 1]], [(0.5,)], [(0.5, 1, 2)], [()],
        [(0.5, 1), (0.5, 2)], [(0.5, 1), (0.5, 3)], [(0.5, 1), (0.5, -1)], [(0.5, 1), [0.5, 2]],
        [("a", 1), ("b", 2)], [("a", 1), (1, 2)], [("a", 1), ("b", 3)], [("a", 1), ("b", -1)],
        [("a", 1), ("b", 2.0)], [("a", 1), ("b", "2")], [("a", 1), ("b", None)],
        [(0.5, 1), ("b", 2)], [(0.5, 1), (None, 2)], [(True, 1), (0.5, True)], [("a", 0), ("b", 2)],
        [(0.5, 0), (0.5, 2, 3)], [(0.5, 3), (0.5, 2, 3)], [("a", 3), 5], [(1, 1.0)], [(1j, 1)],
    ]
    for cls_name in ("PlayerOne", "PlayerTwo", "ProbabilisticNode", "Node"):
        cls = getattr(tad, cls_name)
        for player in (P1, P2, PR, "Player 3", None):
            for b_idx, next_states in enumerate(bad_lists):
                for num_states in (3, 2, 0):
                    emit(f"node|{cls_name}|{player}|{b_idx}|n={num_states}", attempt(
                        lambda: node_summary([cls(player=player, idx=0, reward=1,
                                                  next_states=next_states,
                                                  num_states=num_states, is_final_node=False)])))

    # ---- the batch runner
    class FakeTime:
        def __init__(self):
            self.now = 0.0

        def time(self):
            self.now += 0.25
            return self.now

    def strip(results):
        return {name: {k: v for k, v in res.items() if k != "total_time"}
                for name, res in results.items()}

    def batch(case_id, games_dict):
        conditionalrewards.time = FakeTime()
        del log_lines[:]
        counter["iterations"] = 0
        holder = {}

        def call():
            holder["results"] = conditionalrewards.run_games(games_dict)
            return strip(holder["results"])
        emit(f"{case_id}|run_games", attempt(call))
        emit(f"{case_id}|errors", repr([line for line in log_lines if line.startswith("ERROR")]))
        emit(f"{case_id}|log", repr(log_lines))
        emit(f"{case_id}|input-after", repr(games_dict))
        if "results" in holder:
            def save():
                conditionalrewards.save_results_to_file(holder["results"], f"inputs/{case_id}.py")
                with open(f"outputs/{case_id}.txt") as handle:
                    return handle.read()
            emit(f"{case_id}|report", attempt(save))
        conditionalrewards.time = _time

    brng = random.Random(SEED + 7)
    for b_idx in range(150):
        games_dict = {}
        for slot in range(brng.choice([1, 2, 3])):
            g_idx = brng.choice(solvable)
            base = base_games[g_idx]
            game = copy_game(base)
            label = "good"
            if brng.random() < 0.75:
                label, fn = brng.choice(mutations_of(base))
                try:
                    fn(game)
                except Exception:
                    label = "good"
                    game = copy_game(base)
            games_dict[f"game{slot}_g{g_idx}_{label}"] = game
        batch(f"batch{b_idx}", games_dict)
    batch("batch-empty", {})
    batch("batch-extra-key", {"a": dict(copy_game(base_games[solvable[0]]), colour="red")})
    batch("batch-missing-key", {"a": {"rewards": [0], "players": [PR]}})
    batch("batch-prune-preset", {"a": dict(copy_game(base_games[solvable[0]]), prune_states=False)})

    emit("stats", repr(stats) + f" solvable={len(solvable)}")
    out.close()
    os.chdir("/")
    shutil.rmtree(workdir, ignore_errors=True)


# --------------------------------------------------------------------------
# parent
# --------------------------------------------------------------------------

def main():
    if len(sys.argv) == 4 and sys.argv[1] == "--worker":
        worker(sys.argv[2], sys.argv[3])
        return 0
    if len(sys.argv) != 3:
        print(__doc__)
        return 2
    patched, clean = sys.argv[1], sys.argv[2]
    started = _time.time()
    tmp = tempfile.mkdtemp(prefix="c09_equiv_out_")
    outs = [os.path.join(tmp, "patched.txt"), os.path.join(tmp, "clean.txt")]
    env = dict(os.environ, PYTHONHASHSEED="0", PYTHONDONTWRITEBYTECODE="1")
    procs = [subprocess.Popen([sys.executable, os.path.abspath(__file__), "--worker", root, path],
                              env=env, stdout=subprocess.PIPE, stderr=subprocess.PIPE, text=True)
             for root, path in zip((patched, clean), outs)]
    failed = False
    for name, proc in zip(("patched", "clean"), procs):
        try:
            _, err = proc.communicate(timeout=240)
        except subprocess.TimeoutExpired:
            proc.kill()
            print(f"FAIL: worker for the {name} tree timed out")
            return 1
        if proc.returncode != 0:
            print(f"FAIL: worker for the {name} tree crashed (exit {proc.returncode})")
            print(err[-3000:])
            failed = True
    if failed:
        return 1

    def load(path):
        table = {}
        with open(path) as handle:
            for line in handle:
                case_id, _, outcome = line.rstrip("\n").partition("\t")
                assert case_id not in table, f"duplicated case id {case_id}"
                table[case_id] = outcome
        return table

    got, want = load(outs[0]), load(outs[1])
    shutil.rmtree(tmp, ignore_errors=True)
    differences = [cid for cid in want if got.get(cid) != want[cid]]
    differences += [cid for cid in got if cid not in want]
    n_valueerror = sum(1 for v in want.values() if v.startswith("EXC ValueError"))
    n_ok = sum(1 for v in want.values() if v.startswith("OK"))
    n_budget = sum(1 for v in want.values() if v == "BUDGET")
    n_other = sum(1 for v in want.values() if v.startswith("EXC") and
                  not v.startswith("EXC ValueError"))
    print(f"{len(want)} observations ({n_ok} results, {n_valueerror} ValueError, "
          f"{n_other} other exceptions, {n_budget} over budget); {want.get('stats')}; "
          f"{_time.time() - started:.1f}s")
    if differences:
        print(f"FAIL: {len(differences)} observations differ")
        for cid in differences[:15]:
            print(f"  {cid}\n    patched: {got.get(cid)}\n    clean  : {want.get(cid)}")
        return 1
    print("PASS")
    return 0


if __name__ == "__main__":
    sys.exit(main())
