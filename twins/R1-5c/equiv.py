#!/usr/bin/env python
"""
Equivalence harness for refactorings of the node classes in tad.py
(ProbabilisticNode, PlayerOne, PlayerTwo).

Usage:  /venv/bin/python equiv.py <repo-root-A> <repo-root-B>

Each root is exercised in its own subprocess (so the two copies of `tad` and
`reverse_dfs` never share sys.modules).  The worker prints one JSON line per
observation; the parent compares the two streams line by line.  Everything is
compared through repr(), so 0 vs 0.0, list vs tuple, exception type and
exception message all count as differences.

Observations:
  * every public/private method of the three node classes, called directly on
    hand-written and seeded random state lists (values with ties, int/float
    mixes, values straddling the rounding tolerance, empty transition lists,
    strategies that do not match any action, removal of missing transitions),
    including the node's transition list afterwards and whether the previous
    list object was mutated;
  * StochasticGame.solve() (prune on and off) on the games shipped in inputs/,
    on hand-written edge cases, on several hundred seeded random stopping
    games, and on malformed game descriptions (exception type + message);
  * conditionalrewards.run_games on a dictionary of games (timings dropped).
"""
import copy
import json
import os
import random
import subprocess
import sys
import tempfile

P1 = "Player 1"
P2 = "Player 2"
PR = "Probabilistic"


# --------------------------------------------------------------------------
# worker side
# --------------------------------------------------------------------------

OUT = []


def emit(label, value):
    OUT.append(json.dumps([label, value]))


def outcome(fn, *args, **kwargs):
    """repr of the result, or of the exception type and message."""
    try:
        return "OK " + repr(fn(*args, **kwargs))
    except RecursionError:
        raise
    except Exception as exc:  # noqa: BLE001 - we want every exception
        return "EXC " + type(exc).__name__ + ": " + str(exc)


REACH_VALUES = [
    0, 1, 0.0, 1.0, 0.5, 0.5, 0.25, 0.75, 1 / 3, 2 / 3, 0.4999996, 0.5000004,
    0.50000049, 0.49999951, 1e-7, 4e-7, 6e-7, 1e-6, 1 - 1e-7, 1 - 6e-7, 0.9999995,
    0.123456749, 0.12345675, 0.1234565, 1e-12, -0.0,
]
REWARD_VALUES = [
    0, 0.0, 1, 1.0, 2, 2.0, 3.5, 10 / 3, 3.3333331, 3.3333335, 3.33333349, 5 / 3,
    11 / 6, 100, 100.0, 7, 7.0000004, 7.0000006, 1e-7, 6e-7, 0.5, 0.5, 12.25, -0.0,
]
NODE_REWARDS = [0, 0, 1, 2, 0.5, 5 / 3, 11 / 6, 3, 10, 0.0, 1.0]
ACTIONS = ["a", "b", "c", "d", "alfa", "beta", " ", ""]


def random_probabilities(rng, k):
    style = rng.randrange(4)
    if style == 0:
        return [1 / k] * k
    if style == 1:
        weights = [rng.randint(1, 8) for _ in range(k)]
        total = sum(weights)
        return [w / total for w in weights]
    if style == 2:
        weights = [rng.random() + 0.01 for _ in range(k)]
        total = sum(weights)
        return [w / total for w in weights]
    # dyadic, last one takes the remainder
    probs = []
    remaining = 1.0
    for _ in range(k - 1):
        p = remaining / 2
        probs.append(p)
        remaining -= p
    probs.append(remaining)
    if k == 1:
        return [1]
    return probs


def build_node(tad, player, idx, reward, next_states, num_states, is_final):
    cls = {P1: tad.PlayerOne, P2: tad.PlayerTwo, PR: tad.ProbabilisticNode}[player]
    return cls(player=player, idx=idx, reward=reward, next_states=next_states,
               num_states=num_states, is_final_node=is_final)


def random_state_list(rng, tad):
    n = rng.randint(1, 7)
    nodes = []
    for idx in range(n):
        player = rng.choice([P1, P2, PR])
        k = rng.randint(1, 5)
        if player == PR:
            probs = random_probabilities(rng, k)
            transitions = [(p, rng.randrange(n)) for p in probs]
        else:
            if rng.random() < 0.15:
                names = [rng.choice(ACTIONS) for _ in range(k)]  # may repeat
            else:
                names = rng.sample(ACTIONS, k)
            transitions = [(a, rng.randrange(n)) for a in names]
        nodes.append(build_node(tad, player, idx, rng.choice(NODE_REWARDS), transitions,
                                n, rng.random() < 0.3))
    style = rng.randrange(5)
    for node in nodes:
        if style == 0:      # untouched: values as produced by the constructor
            continue
        if style == 1:      # everything zero / one
            node.reach_probability = rng.choice([0, 1, 0.0, 1.0])
            node.expected_rewards = rng.choice([0, 0.0, 1, 1.0])
            node.expected_rewards_min_reach = rng.choice([0, 0.0, 1, 1.0])
            node.expected_reach_min_rewards = rng.choice([0, 1, 0.0, 1.0])
            continue
        if style == 2:      # arbitrary floats
            node.reach_probability = rng.random()
            node.expected_rewards = rng.random() * 20
            node.expected_rewards_min_reach = rng.random() * 20
            node.expected_reach_min_rewards = rng.random()
            continue
        node.reach_probability = rng.choice(REACH_VALUES)
        node.expected_rewards = rng.choice(REWARD_VALUES)
        node.expected_rewards_min_reach = rng.choice(REWARD_VALUES)
        node.expected_reach_min_rewards = rng.choice(REACH_VALUES)
    if rng.random() < 0.1:
        rng.choice(nodes).next_states = []
    return nodes


def node_snapshot(node):
    return (node.player, node.idx, node.reward, node.next_states, node.is_final_node,
            node.reach_probability, node.expected_rewards,
            node.expected_rewards_min_reach, node.expected_reach_min_rewards)


def probe_state_list(tag, rng, nodes):
    """Call every node method on private copies of the state list."""
    for position in range(len(nodes)):
        def fresh():
            state_list = copy.deepcopy(nodes)
            return state_list, state_list[position]

        label = f"{tag}/node{position}"
        state_list, node = fresh()
        emit(label + "/snapshot", repr([node_snapshot(s) for s in state_list]))

        emit(label + "/vi_reach", outcome(node.value_iteration_reach, state_list))
        emit(label + "/vi_rewards", outcome(node.value_iteration_rewards, state_list))
        emit(label + "/after_vi", repr([node_snapshot(s) for s in state_list]))

        for floor in (0, 1, 3, 6, 7, 9):
            for name in ("get_best_strategies_reachability",
                         "get_best_strategies_total_rewards",
                         "get_worst_strategies_reachability",
                         "get_worst_strategies_total_rewards"):
                if hasattr(node, name):
                    emit(f"{label}/{name}/{floor}",
                         outcome(getattr(node, name), state_list, floor))

        # strategies to filter on / to take minima over
        actions = [t[0] for t in node.next_states]
        strategy_sets = [[], list(actions), actions[:1], actions[-1:], ["zz"],
                         ["zz"] + actions[1:2], list(reversed(actions))]
        for _ in range(2):
            strategy_sets.append([a for a in actions if rng.random() < 0.5])

        if hasattr(node, "_expected_rewards_min_reach"):
            for i, strategies in enumerate(strategy_sets):
                state_list, node = fresh()
                emit(f"{label}/_expected_rewards_min_reach/{i}",
                     outcome(node._expected_rewards_min_reach, state_list, strategies))

        if hasattr(node, "prune_paths_reachability"):
            for i, strategies in enumerate(strategy_sets):
                state_list, node = fresh()
                before = node.next_states
                res = outcome(node.prune_paths_reachability, strategies)
                emit(f"{label}/prune_paths_reachability/{i}",
                     repr((res, node.next_states, before, before is node.next_states)))

        if hasattr(node, "prune_paths"):
            state_list, node = fresh()
            before = node.next_states
            res = outcome(node.prune_paths, state_list)
            emit(f"{label}/prune_paths",
                 repr((res, node.next_states, before, before is node.next_states)))
            # a second call must be idempotent in both versions
            res = outcome(node.prune_paths, state_list)
            emit(f"{label}/prune_paths_twice", repr((res, node.next_states)))

        if hasattr(node, "remove_path"):
            state_list, node = fresh()
            candidates = list(node.next_states) + [("zz", 0), (0.125, 0)]
            for i, victim in enumerate(candidates):
                state_list, node = fresh()
                before = node.next_states
                res = outcome(node.remove_path, victim)
                emit(f"{label}/remove_path/{i}",
                     repr((res, node.next_states, before, before is node.next_states)))


def hand_written_state_lists(tad):
    lists = {}

    def mk(spec):
        n = len(spec)
        nodes = []
        for idx, (player, reward, transitions, final, values) in enumerate(spec):
            node = build_node(tad, player, idx, reward, transitions, n, final)
            if values is not None:
                (node.reach_probability, node.expected_rewards,
                 node.expected_rewards_min_reach, node.expected_reach_min_rewards) = values
            nodes.append(node)
        return nodes

    lists["all_zero"] = mk([
        (P1, 0, [("a", 1), ("b", 2)], False, None),
        (P2, 0, [("a", 0), ("b", 2)], False, None),
        (PR, 0, [(0.5, 0), (0.5, 1)], False, None),
    ])
    lists["ties_int_float"] = mk([
        (P1, 1, [("a", 1), ("b", 2), ("c", 3)], False, (0, 1, 1, 0)),
        (P2, 2, [("a", 1), ("b", 2), ("c", 3)], False, (0, 2, 2, 0)),
        (PR, 3, [(0.25, 1), (0.25, 2), (0.5, 3)], False, (0, 3, 3, 0)),
        (PR, 0, [(1, 3)], True, (1, 0, 0.0, 1.0)),
    ])
    lists["ties_mixed"] = mk([
        (P1, 1, [("a", 2), ("b", 3), ("c", 4)], False, (0.5, 4, 4.0, 0.5)),
        (P2, 2, [("a", 2), ("b", 3), ("c", 4)], False, (0.5, 4.0, 4, 0.5)),
        (PR, 0, [(1, 2)], False, (1, 2, 2.0, 1)),
        (PR, 0, [(1, 3)], False, (1.0, 2.0, 2, 1.0)),
        (PR, 0, [(1, 4)], False, (1, 2, 1, 0.25)),
    ])
    lists["rounding_edges"] = mk([
        (P1, 0, [("a", 2), ("b", 3), ("c", 4), ("d", 5)], False, (0, 0, 0, 0)),
        (P2, 0, [("a", 2), ("b", 3), ("c", 4), ("d", 5)], False, (0, 0, 0, 0)),
        (PR, 0, [(1, 2)], False, (0.4999996, 3.3333331, 3.3333331, 0.5)),
        (PR, 0, [(1, 3)], False, (0.5000004, 3.3333335, 3.3333335, 0.5)),
        (PR, 0, [(1, 4)], False, (0.50000049, 3.33333349, 3.3333331, 0.5)),
        (PR, 0, [(1, 5)], False, (0.49999951, 10 / 3, 10 / 3, 0.5)),
    ])
    lists["tiny_values"] = mk([
        (P1, 0, [("a", 2), ("b", 3)], False, (0, 0, 0, 0)),
        (P2, 0, [("a", 2), ("b", 3)], False, (0, 0, 0, 0)),
        (PR, 0, [(0.5, 2), (0.5, 3)], False, (4e-7, 4e-7, 4e-7, 4e-7)),
        (PR, 0, [(0.3, 2), (0.7, 3)], False, (0, 0.0, 0, 0.0)),
    ])
    lists["dead_branches"] = mk([
        (PR, 0, [(0.2, 1), (0.3, 2), (0.1, 3), (0.4, 4)], False, (0.3, 1, 1, 0.3)),
        (P1, 0, [("a", 1), ("b", 2), ("c", 3), ("d", 4)], False, (0, 0, 0, 0)),
        (P2, 0, [("a", 1), ("b", 2), ("c", 3), ("d", 4)], False, (0.0, 0, 0, 0)),
        (PR, 0, [(1, 3)], True, (1, 0, 0, 1)),
        (PR, 0, [(0.5, 4), (0.5, 1)], False, (1e-9, 0, 0, 0)),
    ])
    lists["all_dead"] = mk([
        (PR, 1, [(0.5, 1), (0.5, 2)], False, (0, 1, 1, 0)),
        (P1, 1, [("a", 0), ("b", 2)], False, (0, 1, 1, 0)),
        (P2, 1, [("a", 0), ("b", 1)], False, (0.0, 1, 1, 0)),
    ])
    lists["duplicate_actions"] = mk([
        (P1, 1, [("a", 1), ("a", 2), ("b", 2)], False, (0.5, 1, 1, 0.5)),
        (P2, 1, [("a", 1), ("a", 2), ("b", 2)], False, (0.5, 2, 3, 0.5)),
        (PR, 1, [(0.5, 1), (0.5, 1), (0, 2)], False, (0.25, 3, 2, 0.75)),
    ])
    # outside the solver's domain, but the node methods still have a defined outcome
    lists["negative_values"] = mk([
        (P1, 1, [("a", 2), ("b", 3)], False, (0, 0, 0, 0)),
        (P2, 1, [("a", 2), ("b", 3)], False, (0, 0, 0, 0)),
        (PR, 0, [(0.5, 2), (0.5, 3)], False, (-0.5, -1, -1.5, -0.25)),
        (PR, 0, [(1.5, 2), (-0.5, 3)], False, (1.5, -2, -2.5, 2)),
    ])
    lists["some_negative_values"] = mk([
        (P1, 1, [("a", 2), ("b", 3), ("c", 2)], False, (0, 0, 0, 0)),
        (P2, 1, [("a", 2), ("b", 3), ("c", 2)], False, (0, 0, 0, 0)),
        (PR, 0, [(1, 2)], False, (-0.5, -1, 4, 0.25)),
        (PR, 0, [(1, 3)], False, (0.0, 0.0, 3, 0.5)),
    ])
    single = mk([(PR, 0, [(1, 0)], True, None)])
    lists["single"] = single
    return lists


# ---------------------------------------------------------------- games ----

def random_stopping_game(rng):
    """
    States are ordered; player states only move forward, probabilistic states
    may move backwards with part of their mass, the last states are absorbing
    probabilistic self-loops with reward 0.  Hence the game is stopping.
    """
    n_abs = rng.randint(1, 4)
    n_inner = rng.randint(1, 9)
    n = n_inner + n_abs
    players, transitions, rewards = [], [], []
    for idx in range(n_inner):
        player = rng.choice([P1, P2, PR, PR])
        k = rng.randint(1, 4)
        forward = list(range(idx + 1, n))
        if player == PR:
            probs = random_probabilities(rng, k)
            targets = [rng.choice(forward)]
            for _ in range(k - 1):
                targets.append(rng.randrange(n) if rng.random() < 0.35 else rng.choice(forward))
            rng.shuffle(targets)
            # make sure there is forward mass
            if all(t <= idx for t in targets):
                targets[0] = rng.choice(forward)
            trans = list(zip(probs, targets))
        else:
            names = rng.sample(ACTIONS, k)
            trans = [(a, rng.choice(forward)) for a in names]
        players.append(player)
        transitions.append(trans)
        rewards.append(rng.choice(NODE_REWARDS))
    for idx in range(n_inner, n):
        players.append(PR)
        transitions.append([(1, idx)])
        rewards.append(0)
    absorbing = list(range(n_inner, n))
    style = rng.randrange(6)
    if style == 0:
        finals = list(absorbing)
    elif style == 1:
        finals = [absorbing[0]]
    elif style == 2:
        finals = rng.sample(absorbing, rng.randint(1, len(absorbing)))
    elif style == 3:
        finals = rng.sample(absorbing, rng.randint(1, len(absorbing)))
        finals.append(rng.randrange(n))          # possibly a non absorbing final state
    elif style == 4:
        finals = [absorbing[-1]]
    else:
        finals = [rng.choice(absorbing), rng.choice(absorbing)]
    return {"rewards": rewards, "players": players, "transition_list": transitions,
            "final_states": finals}


def hand_written_games():
    games = {}
    games["initial_dead"] = {
        "rewards": [1, 0, 0], "players": [P1, PR, PR],
        "transition_list": [[("a", 1)], [(1, 1)], [(1, 2)]], "final_states": [2]}
    games["initial_final"] = {
        "rewards": [0, 0], "players": [PR, PR],
        "transition_list": [[(1, 0)], [(1, 1)]], "final_states": [0]}
    games["many_dead_successors"] = {
        "rewards": [1, 2, 3, 0, 0, 0], "players": [PR, P1, P2, PR, PR, PR],
        "transition_list": [
            [(0.1, 4), (0.2, 1), (0.1, 4), (0.3, 2), (0.1, 5), (0.2, 3)],
            [("a", 4), ("b", 3), ("c", 5), ("d", 3), ("e", 4)],
            [("a", 3), ("b", 1), ("c", 3)],
            [(1, 3)], [(1, 4)], [(1, 5)]],
        "final_states": [3]}
    games["p2_can_kill"] = {
        "rewards": [1, 2, 3, 0, 0], "players": [P1, P2, PR, PR, PR],
        "transition_list": [
            [("a", 1), ("b", 2)], [("x", 3), ("y", 4)], [(0.5, 3), (0.5, 4)],
            [(1, 3)], [(1, 4)]],
        "final_states": [3]}
    games["ties_everywhere"] = {
        "rewards": [0, 1, 1, 1.0, 0, 0], "players": [P1, P2, P2, PR, PR, PR],
        "transition_list": [
            [("a", 1), ("b", 2), ("c", 3)], [("x", 4), ("y", 4)], [("x", 4), ("y", 5)],
            [(0.5, 4), (0.5, 4)], [(1, 4)], [(1, 5)]],
        "final_states": [4]}
    games["prob_back_edges"] = {
        "rewards": [1, 2, 0.5, 0, 0], "players": [PR, PR, P2, PR, PR],
        "transition_list": [
            [(0.5, 0), (0.25, 1), (0.25, 4)], [(1 / 3, 0), (1 / 3, 2), (1 / 3, 3)],
            [("l", 3), ("r", 4)], [(1, 3)], [(1, 4)]],
        "final_states": [3]}
    games["zero_probability_edge"] = {
        "rewards": [1, 0, 0], "players": [PR, PR, PR],
        "transition_list": [[(0, 1), (1, 2)], [(1, 1)], [(1, 2)]], "final_states": [1]}
    games["zero_probability_survivor"] = {
        "rewards": [1, 0, 0, 0], "players": [P1, PR, PR, PR],
        "transition_list": [[("a", 1), ("b", 3)], [(0.0, 3), (1.0, 2)], [(1, 2)], [(1, 3)]],
        "final_states": [3]}
    games["p1_only"] = {
        "rewards": [0, 5, 7, 0, 0], "players": [P1, P1, P1, PR, PR],
        "transition_list": [
            [("a", 1), ("b", 2), ("c", 4)], [("a", 3), ("b", 4)], [("a", 3)],
            [(1, 3)], [(1, 4)]],
        "final_states": [3]}
    games["final_not_absorbing"] = {
        "rewards": [1, 4, 0, 0], "players": [P2, P1, PR, PR],
        "transition_list": [[("a", 1), ("b", 2)], [("a", 2), ("b", 3)], [(1, 2)], [(1, 3)]],
        "final_states": [1, 3]}
    return games


def malformed_games():
    base = {
        "rewards": [1, 2, 0, 0], "players": [P1, P2, PR, PR],
        "transition_list": [[("a", 1), ("b", 2)], [("x", 2), ("y", 3)], [(1, 2)], [(1, 3)]],
        "final_states": [2]}
    games = {}

    def variant(name, **changes):
        g = copy.deepcopy(base)
        g.update(changes)
        games[name] = g

    variant("short_transition_list", transition_list=base["transition_list"][:3])
    variant("short_rewards", rewards=[1, 2, 0])
    variant("negative_reward", rewards=[1, -2, 0, 0])
    variant("final_out_of_range", final_states=[7])
    variant("final_negative", final_states=[-1])
    variant("no_final", final_states=[])
    variant("bad_player", players=[P1, "Player 3", PR, PR])
    variant("empty_transitions",
            transition_list=[[("a", 1)], [], [(1, 2)], [(1, 3)]])
    variant("transitions_not_list",
            transition_list=[(("a", 1),), [("x", 2)], [(1, 2)], [(1, 3)]])
    variant("transition_not_tuple",
            transition_list=[[["a", 1]], [("x", 2)], [(1, 2)], [(1, 3)]])
    variant("transition_too_long",
            transition_list=[[("a", 1, 2)], [("x", 2)], [(1, 2)], [(1, 3)]])
    variant("action_not_str",
            transition_list=[[(1, 1)], [("x", 2)], [(1, 2)], [(1, 3)]])
    variant("probability_not_number",
            transition_list=[[("a", 1)], [("x", 2)], [("p", 2)], [(1, 3)]])
    variant("next_state_not_int",
            transition_list=[[("a", 1.0)], [("x", 2)], [(1, 2)], [(1, 3)]])
    variant("next_state_out_of_range",
            transition_list=[[("a", 4)], [("x", 2)], [(1, 2)], [(1, 3)]])
    variant("next_state_negative",
            transition_list=[[("a", 1)], [("x", -1)], [(1, 2)], [(1, 3)]])
    variant("probabilities_do_not_sum_to_one",
            transition_list=[[("a", 1), ("b", 2)], [("x", 2), ("y", 3)],
                             [(0.5, 2), (0.25, 3)], [(1, 3)]])
    variant("unsolvable", final_states=[0],
            transition_list=[[("a", 1)], [("x", 2), ("y", 3)], [(1, 2)], [(1, 3)]],
            rewards=[0, 0, 0, 0])
    return games


def solve_both_modes(tad, label, game, like_driver=False):
    """
    Solve with pruning on and off.  With like_driver=True the unpruned run is
    skipped when the pruned one had no solution, exactly as
    conditionalrewards.run_games does (several shipped games are not stopping
    and their unconditioned rewards diverge).
    """
    for prune in (True, False):
        description = copy.deepcopy(game)
        description["prune_states"] = prune

        def run():
            sgame = tad.StochasticGame(**description)
            count = sgame.count_transitions()
            return count, sgame.solve()

        result = outcome(run)
        emit(f"{label}/prune={prune}", result)
        if like_driver and prune and result.startswith("EXC"):
            emit(f"{label}/prune=False", "skipped, as the batch driver does")
            return
        # the caller's description must be left as it was
        emit(f"{label}/prune={prune}/description", repr(description))


def solver_internals(tad, label, game):
    """Conditioned game as left in the solver's state list (C03 view)."""
    description = copy.deepcopy(game)

    def run():
        sgame = tad.StochasticGame(prune_states=True, **description)
        sgame.check_game()
        state_list = sgame.init_states()
        solver = tad.Solver(threshold=10 ** (-6), state_list=state_list)
        strategies, iterations = solver.solve_reachability(
            sgame.transition_list, sgame.final_states, True)
        solver.prune_reachability(strategies)
        after_reach = [list(s.next_states) for s in state_list]
        solver.prune_paths()
        after_paths = [list(s.next_states) for s in state_list]
        solver.prune_states()
        after_states = [list(s.next_states) for s in state_list]
        return strategies, iterations, after_reach, after_paths, after_states

    emit(f"{label}/internals", outcome(run))


def load_input_games(root):
    games = {}
    folder = os.path.join(root, "inputs")
    if not os.path.isdir(folder):
        return games
    for file_name in sorted(os.listdir(folder)):
        path = os.path.join(folder, file_name)
        if not file_name.endswith(".py") or os.path.getsize(path) > 60000:
            continue
        with open(path) as handle:
            try:
                content = eval(handle.read())  # same as the tool's own reader
            except Exception:  # noqa: BLE001
                continue
        if isinstance(content, dict):
            for name, game in content.items():
                if len(game.get("players", [])) <= 400:
                    games[f"{file_name}:{name}"] = game
    return games


def worker(root):
    root = os.path.abspath(root)
    sys.path.insert(0, root)
    sys.dont_write_bytecode = True
    input_games = load_input_games(root)
    workdir = tempfile.mkdtemp(prefix="equiv_R1_")
    os.chdir(workdir)
    import faulthandler
    faulthandler.dump_traceback_later(1500, exit=True)   # a hang is a failure, not a wait
    import tad
    import conditionalrewards

    assert os.path.abspath(tad.__file__).startswith(root), tad.__file__

    # --- node level --------------------------------------------------------
    rng = random.Random(20240611)
    for name, nodes in hand_written_state_lists(tad).items():
        probe_state_list(f"hand/{name}", rng, nodes)
    for i in range(400):
        nodes = random_state_list(rng, tad)
        probe_state_list(f"rand{i}", rng, nodes)

    # --- whole solver ------------------------------------------------------
    for name, game in hand_written_games().items():
        solve_both_modes(tad, f"game/hand/{name}", game)
        solver_internals(tad, f"game/hand/{name}", game)
    for name, game in malformed_games().items():
        solve_both_modes(tad, f"game/malformed/{name}", game)
    for name, game in input_games.items():
        game = {k: v for k, v in game.items() if k != "prune_states"}
        solve_both_modes(tad, f"game/input/{name}", game, like_driver=True)
    rng = random.Random(977)
    batch = {}
    for i in range(400):
        game = random_stopping_game(rng)
        solve_both_modes(tad, f"game/rand{i}", game)
        if i % 4 == 0:
            solver_internals(tad, f"game/rand{i}", game)
        if i < 40:
            batch[f"rand{i}"] = game

    # --- batch driver ------------------------------------------------------
    batch.update(hand_written_games())
    batch.update({k: v for k, v in malformed_games().items()
                  if k in ("unsolvable", "no_final", "negative_reward")})

    def run_batch():
        results = conditionalrewards.run_games(copy.deepcopy(batch))
        for entry in results.values():
            entry.pop("total_time")
        return results

    emit("batch/run_games", outcome(run_batch))

    sys.stdout.write("\n".join(OUT) + "\n")


# --------------------------------------------------------------------------
# parent side
# --------------------------------------------------------------------------

def run_worker(root):
    env = dict(os.environ)
    env["PYTHONHASHSEED"] = "0"
    env["PYTHONDONTWRITEBYTECODE"] = "1"
    env.pop("PYTHONPATH", None)
    proc = subprocess.run(
        [sys.executable, os.path.abspath(__file__), "--worker", root],
        capture_output=True, text=True, env=env)
    if proc.returncode != 0:
        print(f"DIFFERENT: worker for {root} failed with code {proc.returncode}")
        print(proc.stderr[-4000:])
        sys.exit(1)
    return [json.loads(line) for line in proc.stdout.splitlines() if line.strip()]


def main(argv):
    if len(argv) == 3 and argv[1] == "--worker":
        worker(argv[2])
        return 0
    if len(argv) != 3:
        print("usage: equiv.py <repo-root-A> <repo-root-B>")
        return 2
    obs_a = run_worker(argv[1])
    obs_b = run_worker(argv[2])
    for (label_a, value_a), (label_b, value_b) in zip(obs_a, obs_b):
        if label_a != label_b or value_a != value_b:
            print("DIFFERENT")
            print(f"  A: {label_a}: {value_a[:2000]}")
            print(f"  B: {label_b}: {value_b[:2000]}")
            return 1
    if len(obs_a) != len(obs_b):
        print(f"DIFFERENT: {len(obs_a)} observations for A, {len(obs_b)} for B")
        return 1
    if not obs_a:
        print("DIFFERENT: no observations were produced")
        return 1
    print("SAME")
    return 0


if __name__ == "__main__":
    sys.exit(main(sys.argv))
