#!/usr/bin/env python
"""Equivalence test for property C16 (the saved report states exactly what was computed).

usage: python equiv_test.py <path-to-patched-root> <path-to-clean-root>

Both trees are loaded in separate subprocesses (one worker process per tree, plus a
few real command line runs per tree).  Every case yields a JSON-able observation
(report files byte for byte, repr of values, exception type + message, exit codes,
help texts); the two observation maps must be identical.  Prints PASS / FAIL.
"""
import contextlib
import hashlib
import io
import json
import math
import os
import random
import re
import shutil
import signal
import subprocess
import sys
import tempfile

PY = sys.executable
SMALL_INPUTS = [
    "example_17_08.py",
    "example_games.py",
    "paper_games.py",
    "manual_1_game_a.py",
    "manual_arrow_bottom.py",
    "robot_1_w1_l2_r6_rb10_lb5_tb10_lt0.py",
    "robot_1_w2_l1_r6_rb10_lb5_tb10_lt0.py",
    "robot_1_w2_l2_r6_rb10_lb5_tb10_lt0.py",
]
RESULT_KEYS = ["n_states", "n_transitions", "n_iterations_reach", "n_iterations_rew",
               "reachability_strategies", "final_strategies", "total_time", "msg",
               "rewards", "rew_min_reach", "probabilities", "prob_min_rew"]


# ----------------------------------------------------------------------------------
# worker side
# ----------------------------------------------------------------------------------
class FakeTime:
    """Deterministic replacement of the `time` module seen by conditionalrewards."""

    def __init__(self):
        self.now = 1000.0

    def time(self):
        self.now += 0.37
        return self.now


class Budget(Exception):
    pass


def _alarm(signum, frame):
    raise Budget("time budget exceeded")


class Odd:
    """A value whose str / repr / format differ, to pin down how lines are formatted."""

    def __init__(self, tag):
        self.tag = tag

    def __repr__(self):
        return f"Odd-repr({self.tag})"

    def __str__(self):
        return f"Odd-str({self.tag})"

    def __format__(self, spec):
        return f"Odd-format({self.tag}|{spec})"

    def __eq__(self, other):
        return isinstance(other, Odd) and other.tag == self.tag

    def __hash__(self):
        return hash(self.tag)


def snapshot_outputs(clear=True):
    snap = {}
    if not os.path.isdir("outputs"):
        return "<no outputs dir>"
    for dirpath, dirnames, filenames in os.walk("outputs"):
        for fn in sorted(filenames):
            p = os.path.join(dirpath, fn)
            with open(p, "rb") as fh:
                snap[p] = fh.read().decode("latin-1")
            if clear:
                os.remove(p)
    return snap


def observe(fn, *args):
    """Run fn, return ('ok', repr) or ('exc', type, message)."""
    out, err = io.StringIO(), io.StringIO()
    try:
        with contextlib.redirect_stdout(out), contextlib.redirect_stderr(err):
            value = fn(*args)
        res = ["ok", type(value).__name__, repr(value)]
    except SystemExit as e:
        res = ["exit", repr(e.code)]
    except Budget as e:
        res = ["budget"]
    except BaseException as e:  # noqa
        res = ["exc", type(e).__name__, str(e)]
    return res, out.getvalue(), err.getvalue()


def shrink(text):
    if len(text) > 4000:
        return f"<{len(text)} chars sha1 {hashlib.sha1(text.encode('utf-8', 'surrogatepass')).hexdigest()}>"
    return text


def rand_float(rng):
    k = rng.random()
    if k < 0.05:
        return rng.choice([float("inf"), float("-inf"), float("nan"), -0.0, 0.0, 1e-320, 1.7976931348623157e308,
                           5e-324, 1e16, 1e-7, 0.1 + 0.2, 1 / 3])
    if k < 0.15:
        return rng.randint(0, 50)
    if k < 0.5:
        return rng.random()
    return rng.uniform(0, 10 ** rng.randint(0, 6))


def rand_vector(rng):
    k = rng.random()
    if k < 0.1:
        return None
    if k < 0.2:
        return []
    if k < 0.3:
        return 0
    n = rng.choice([1, 2, 3, 5, 10, 40, 400])
    return [rand_float(rng) for _ in range(n)]


def rand_strategies(rng):
    k = rng.random()
    if k < 0.15:
        return None
    if k < 0.25:
        return []
    n = rng.choice([1, 2, 4, 10, 60])
    acts = ["alfa_1", "beta_2", "up", "down", "a", "", "x y", "it's", 'q"q', "back\\slash", "l\nf", "{n}", "%s"]
    res = []
    for _ in range(n):
        j = rng.random()
        if j < 0.4:
            res.append(None)
        elif j < 0.5:
            res.append([])
        else:
            res.append([rng.choice(acts) for _ in range(rng.randint(1, 3))])
    return res


def rand_result(rng):
    reach = rand_strategies(rng)
    k = rng.random()
    if k < 0.35:
        final = reach                       # same object
    elif k < 0.55:
        final = json.loads(json.dumps(reach))   # equal, distinct object
    else:
        final = rand_strategies(rng)
    msgs = ["Game solved", "Game not solved",
            "Error while solving the game: The game has no solution. The initial state has a reach probability of 0.",
            "Error while solving the game: max() arg is an empty sequence", "", "multi\nline", "{braces} %d %s {0}",
            "tab\there", "unicode é中", None, 17]
    return {
        "n_states": rng.choice([0, 1, 7, 10 ** 6, None]),
        "n_transitions": rng.choice([0, 3, 23, 99999]),
        "n_iterations_reach": rng.choice([0, 1, 22, 10 ** 9]),
        "n_iterations_rew": rng.choice([0, 1, 27, None]),
        "reachability_strategies": reach,
        "final_strategies": final,
        "total_time": rng.choice([0.0, 1e-7, 0.001634836196899414, 12.5, 3, None, rand_float(rng)]),
        "msg": rng.choice(msgs),
        "rewards": rand_vector(rng),
        "rew_min_reach": rand_vector(rng),
        "probabilities": rand_vector(rng),
        "prob_min_rew": rand_vector(rng),
    }


NAMES = ["game_1", "game_1_no_prune", "g", "", "a_b_c_12_3", "x.y", "sp ace", "sl/ash", "n\nl", "{x}", "%s",
         "manual_robot_Roborta_1_w4_l4_r5", "0", "__", "été_2", 5, (1, 2), None, 2.5, True]
FILE_NAMES = ["inputs/example_17_08.py", "example.py", "inputs/a_b_12.py", "a", "inputs/noext", "inputs/x.y.z.py",
              "inputs/.hidden.py", "inputs/", "", ".", "..", "/abs/path/to/file_9.py", "./inputs/f.py",
              "../up/f_1_2.txt", "inputs/sub.dir/g_3.py", "dotted.dir/name", "back\\slash\\f.py", "inputs//dbl.py",
              "inputs/sp ace.py", "inputs/UPPER_Case_77.PY", "inputs/tést_1.py", "a/b/c/d/e_f.g.h",
              "robot_47_w10_l5_r6_rb10_lb10_tb10_lt30_force_down.py", "inputs/name.", "inputs/name..py", "x/.py",
              "outputs/o.txt", "inputs/nul\x00l.py", "inputs/" + "l" * 300 + ".py", "sub/dir.txt"]


def save_cases(cr, R):
    rng = random.Random(1601)
    # random result maps
    for i in range(320):
        n_games = rng.choice([0, 1, 1, 2, 2, 3, 6])
        names = rng.sample(NAMES, n_games)
        results = {}
        for nm in names:
            results[nm] = rand_result(rng)
        fname = FILE_NAMES[i % len(FILE_NAMES)] if i < 2 * len(FILE_NAMES) else rng.choice(FILE_NAMES[:8])
        res, out, err = observe(cr.save_results_to_file, results, fname)
        R[f"save/rand/{i}"] = [res, out, err, snapshot_outputs()]
    base = rand_result(random.Random(7))
    # values with distinct str/repr/format; nan identity vs equality; aliasing
    nan = float("nan")
    specials = {
        "odd": dict(base, msg=Odd("m"), n_states=Odd("n"), n_transitions=Odd("t"), n_iterations_reach=Odd("ir"),
                    n_iterations_rew=Odd("iw"), reachability_strategies=Odd("s"), final_strategies=Odd("s"),
                    total_time=Odd("tt"), rewards=Odd("r"), rew_min_reach=Odd("rm"), probabilities=Odd("p"),
                    prob_min_rew=Odd("pm")),
        "odd_ne": dict(base, reachability_strategies=Odd("s1"), final_strategies=Odd("s2")),
        "nan_same": dict(base, reachability_strategies=[nan], final_strategies=[nan]),
        "nan_diff": dict(base, reachability_strategies=[float("nan")], final_strategies=[float("nan")]),
        "tuple_vs_list": dict(base, reachability_strategies=(["a"],), final_strategies=[["a"]]),
        "int_vs_float": dict(base, reachability_strategies=[1], final_strategies=[1.0]),
        "none_none": dict(base, reachability_strategies=None, final_strategies=None),
        "none_empty": dict(base, reachability_strategies=None, final_strategies=[]),
        "empty_empty": dict(base, reachability_strategies=[], final_strategies=[]),
        "long": dict(base, rewards=[i / 7 for i in range(5000)], probabilities=[1 / (i + 1) for i in range(5000)]),
        "extra_keys": dict(base, extra=1, another=[2]),
        "str_values": dict(base, rewards="[1, 2]", probabilities="None", n_states="10"),
        "bytes_values": dict(base, msg=b"bytes", rewards=bytearray(b"ab")),
        "nested": dict(base, rewards=[[1.5, [2]], {"a": (1,)}], prob_min_rew={1: 2}),
    }
    for tag, val in specials.items():
        res, out, err = observe(cr.save_results_to_file, {"g_" + tag: val, Odd("name"): val}, "inputs/special_1.py")
        R[f"save/special/{tag}"] = [res, out, err, snapshot_outputs()]
    # malformed result maps: the partial file must be the same as well
    for key in RESULT_KEYS:
        broken = dict(base)
        del broken[key]
        results = {"first": dict(base), "second": broken, "third": dict(base)}
        res, out, err = observe(cr.save_results_to_file, results, "inputs/broken_2.py")
        R[f"save/missing/{key}"] = [res, out, err, snapshot_outputs()]
    for tag, results in {"game_none": {"a": None}, "game_list": {"a": [1]}, "game_str": {"a": "msg"},
                         "results_list": [("a", base)], "results_none": None, "results_str": "abc",
                         "game_second_none": {"a": base, "b": None}}.items():
        res, out, err = observe(cr.save_results_to_file, results, "inputs/broken_3.py")
        R[f"save/badtype/{tag}"] = [res, out, err, snapshot_outputs()]
    import pathlib
    for tag, fname in {"none": None, "int": 3, "bytes": b"inputs/x.py", "path": pathlib.PurePosixPath("inputs/x.py"),
                       "list": ["inputs/x.py"], "tuple": ("a/b.py",)}.items():
        res, out, err = observe(cr.save_results_to_file, {"a": base}, fname)
        R[f"save/badname/{tag}"] = [res, out, err, snapshot_outputs()]
    # keyword call, overwrite of an existing longer report, missing / blocked output directory
    res, out, err = observe(lambda: cr.save_results_to_file(game_resuts={"a": base}, file_name="inputs/kw_1.py"))
    R["save/keywords"] = [res, out, err, snapshot_outputs()]
    observe(cr.save_results_to_file, {"a": base, "b": base, "c": base}, "inputs/over.py")
    res, out, err = observe(cr.save_results_to_file, {"z": base}, "other/over.txt")
    R["save/overwrite"] = [res, out, err, snapshot_outputs()]
    observe(cr.save_results_to_file, {"a": base}, "inputs/keep.py")
    res, out, err = observe(cr.save_results_to_file, {}, "inputs/keep.py")
    R["save/overwrite_empty"] = [res, out, err, snapshot_outputs()]
    os.rename("outputs", "outputs_away")
    res, out, err = observe(cr.save_results_to_file, {"a": base}, "inputs/nodir.py")
    R["save/no_outputs_dir"] = [res, out, err, snapshot_outputs(), sorted(os.listdir("."))]
    with open("outputs", "w") as fh:
        fh.write("i am a file")
    res, out, err = observe(cr.save_results_to_file, {"a": base}, "inputs/nodir.py")
    R["save/outputs_is_file"] = [res, out, err, open("outputs").read()]
    os.remove("outputs")
    os.rename("outputs_away", "outputs")
    os.mkdir("outputs/isdir.txt")
    res, out, err = observe(cr.save_results_to_file, {"a": base}, "inputs/isdir.py")
    R["save/target_is_dir"] = [res, out, err, snapshot_outputs()]
    os.rmdir("outputs/isdir.txt")


READ_CONTENTS = {
    "empty_dict": "{}",
    "simple": "{'a': 1}",
    "ws_lead": "   \t {'a': 1}",
    "nl_lead": "\n\n{'a': 1}",
    "nl_trail": "{'a': 1}\n\n\n",
    "crlf": "{\r\n 'a': [\r\n 1, 2],\r\n}\r\n",
    "comments": "{  # c1\n 'a': 1,  # c2\n # c3\n 'b': [ (0.5, 1), ('x', 2) ],\n}\n# tail",
    "dup_keys": "{'a': 1, 'b': 2, 'a': 3}",
    "order": "{'z': 1, 'y': 2, 'x': 3, 'game_10': 4, 'game_2': 5}",
    "names_digits": "{'game_1_2_3': {}, '1': {}, '_': {}, 'a_b__c_': {}, '': {}}",
    "nonstr_keys": "{1: 2, (1, 2): 3, None: 4, 1.5: 5}",
    "dict_call": "dict(a=1, b=[1, 2])",
    "dict_comp": "{str(i): i * 0.1 for i in range(5)}",
    "dict_union": "{'a': 1} | {'b': 2}",
    "dict_unpack": "{**{'a': 1}, 'b': 2}",
    "ordered": "__import__('collections').OrderedDict(a=1)",
    "defaultdict": "__import__('collections').defaultdict(list, a=[1])",
    "counter": "__import__('collections').Counter('aab')",
    "mappingproxy": "__import__('types').MappingProxyType({'a': 1})",
    "userdict": "__import__('collections').UserDict({'a': 1})",
    "empty": "",
    "blank": "   \n  ",
    "only_comment": "# nothing",
    "list": "[1, 2]",
    "tuple": "(1, 2)",
    "set": "{1, 2}",
    "int": "5",
    "none": "None",
    "str": "'{}'",
    "true": "True",
    "items": "{'a': 1}.items()",
    "syntax": "{'a': ",
    "syntax2": "{'a' 1}",
    "statement": "x = {'a': 1}",
    "two_exprs": "{'a': 1}\n{'b': 2}",
    "import_stmt": "import os",
    "name_error": "{'a': undefined_name_xyz}",
    "zero_div": "{'a': 1 / 0}",
    "raise_value": "{'a': int('x')}",
    "raise_key": "{'a': {}['k']}",
    "raise_type": "{'a': [] + 1}",
    "unhashable": "{[1]: 2}",
    "sysexit": "{'a': __import__('sys').exit(3)}",
    "floats": "{'p': [0.1, 1e-320, 1e400, -0.0, .5, 5., 0.30000000000000004, 1_000.5, 0x10, 0o7, 1j]}",
    "strings": "{'s': ['a' 'b', \"q'q\", '''t\nq''', r'\\n', b'by', f'{1+1}', '\\u00e9']}",
    "unicode": "{'été': '中'}",
    "nested_deep": "{'a': " + "[" * 60 + "]" * 60 + "}",
    "walrus": "{'a': (y := 3), 'b': y}",
    "lambda": "{'a': (lambda: 4)()}",
    "locals_probe": "{'k': sorted(locals())}",
    "locals_values": "{'k': [contents[:5], file_name, file.closed, file.mode]}",
    "aliasing": "(lambda t: {'g1': {'transition_list': t}, 'g2': {'transition_list': t}})([[(1, 0)]])",
    "null_byte": "{'a': 1}\x00",
    "formfeed": "\x0c{'a': 1}",
    "semicolon": "{'a': 1};",
    "backslash_cont": "{'a': \\\n 1}",
    "tabs": "{\t'a':\t1\t}",
    "big": "{" + ", ".join(f"'g_{i}': {{'rewards': {list(range(i % 7))}, 'p': {i / 3!r}}}" for i in range(400)) + "}",
}
READ_BYTES = {
    "bom": b"\xef\xbb\xbf{'a': 1}",
    "latin1": b"{'a': '\xe9'}",
    "utf16": "{'a': 1}".encode("utf-16"),
    "cr_only": b"{'a':\r1}",
    "coding_cookie": b"# -*- coding: latin-1 -*-\n{'a': '\xc3\xa9'}",
}


def describe_dict(d):
    if isinstance(d, dict):
        return [type(d).__name__, shrink(repr(list(d.items())))]
    return [type(d).__name__, shrink(repr(d))]


def read_cases(cr, R, clean_inputs):
    os.makedirs("rd", exist_ok=True)

    def run(tag, path):
        out, err = io.StringIO(), io.StringIO()
        try:
            with contextlib.redirect_stdout(out), contextlib.redirect_stderr(err):
                value = cr.read_dict_from_file(path)
            res = ["ok"] + describe_dict(value)
        except SystemExit as e:
            res = ["exit", repr(e.code)]
        except BaseException as e:  # noqa
            res = ["exc", type(e).__name__, str(e)]
        R[f"read/{tag}"] = [res, out.getvalue(), err.getvalue()]

    for tag, text in READ_CONTENTS.items():
        p = f"rd/{tag}_1.py"
        with open(p, "w", encoding="utf-8", newline="") as fh:
            fh.write(text)
        run(tag, p)
    for tag, data in READ_BYTES.items():
        p = f"rd/{tag}.py"
        with open(p, "wb") as fh:
            fh.write(data)
        run("bytes_" + tag, p)
    import pathlib
    run("pathlib", pathlib.Path("rd/simple_1.py"))
    run("bytes_path", b"rd/simple_1.py")
    run("abs_path", os.path.abspath("rd/simple_1.py"))
    run("missing", "rd/does_not_exist.py")
    run("directory", "rd")
    run("none_name", None)
    run("empty_name", "")
    run("list_name", ["rd/simple_1.py"])
    fd = os.open("rd/simple_1.py", os.O_RDONLY)
    run("fd_name", fd)
    res = observe(lambda: cr.read_dict_from_file(file_name="rd/simple_1.py"))
    R["read/keyword"] = res
    # aliasing inside the returned structure is what the text denotes
    d = cr.read_dict_from_file("rd/aliasing_1.py")
    R["read/aliasing_identity"] = d["g1"]["transition_list"] is d["g2"]["transition_list"]
    # two reads give independent objects
    d1, d2 = cr.read_dict_from_file("rd/simple_1.py"), cr.read_dict_from_file("rd/simple_1.py")
    R["read/fresh_objects"] = d1 is not d2 and d1 == d2
    # every shipped input file
    for fn in sorted(os.listdir(clean_inputs)):
        run("shipped/" + fn, os.path.join(clean_inputs, fn))


ARGVS = [
    [], ["-f", "x.py"], ["--file", "x.py"], ["--file=x.py"], ["-fx.py"], ["-f", "x.py", "-s"], ["-s", "-f", "x.py"],
    ["-f", "x.py", "--save_results"], ["-sf", "x.py"], ["-f", "a", "-f", "b"], ["-f"], ["-s"], ["-h"], ["--help"],
    ["-f", "x", "-l", "i"], ["-f", "x", "-l", "INFO"], ["-f", "x", "--log_level", "dd"], ["-f", "x", "-l"],
    ["-f", "x", "--log_level=DEBUG", "-s"], ["-f", "x", "-l", "bogus"], ["-f", "x", "-l", ""],
    ["--fil", "x"], ["--f", "x"], ["--save", "-f", "x"], ["--s", "-f", "x"], ["--log", "d", "-f", "x"],
    ["--l", "d", "-f", "x"], ["-f", "x", "extra"], ["-f", "x", "--unknown"], ["-f", "x", "-s", "-s"],
    ["-f", ""], ["-f", "-s"], ["-f", "--", "x"], ["--", "-f", "x"], ["-f", "sp ace/und_er_1.2.py", "-s"],
    ["-f", "x", "--save_results=1"], ["--file", "x", "--save-results"], ["-F", "x"], ["-f", "x", "-S"],
    ["-f", "x", "-l", "i", "-l", "d"], ["-ls", "-f", "x"], ["-sl", "d", "-f", "x"], ["-f", "é.py"],
]


def parser_cases(cr, R):
    parser = cr.init_parser()
    R["parser/type"] = type(parser).__name__
    R["parser/help"] = parser.format_help()
    R["parser/usage"] = parser.format_usage()
    R["parser/attrs"] = repr([parser.prog, parser.description, parser.epilog, parser.formatter_class.__name__,
                              parser.add_help, parser.allow_abbrev, parser.prefix_chars, parser.exit_on_error,
                              parser.fromfile_prefix_chars, parser.argument_default, parser.conflict_handler])
    R["parser/actions"] = [repr([type(a).__name__, a.option_strings, a.dest, a.nargs, a.const, a.default,
                                 getattr(a.type, "__name__", a.type), a.choices, a.required, a.help, a.metavar])
                           for a in parser._actions]
    R["parser/fresh"] = cr.init_parser() is not parser
    for i, argv in enumerate(ARGVS):
        def parse():
            ns = cr.init_parser().parse_args(argv)
            return sorted(vars(ns).items())
        R[f"parser/parse/{i}/{argv}"] = observe(parse)


def rand_game(rng):
    """A well-formed game whose value iterations converge: player states only move
    forward or into probabilistic states, every probabilistic state leaks into a sink."""
    n = rng.randint(3, 9)
    bad, good = n - 2, n - 1
    players, trans, rewards = [], [], []
    for s in range(n - 2):
        players.append(rng.choice(["Player 1", "Player 2", "Probabilistic", "Probabilistic"]))
    prob_states = [s for s in range(n - 2) if players[s] == "Probabilistic"]
    for s in range(n - 2):
        rewards.append(rng.choice([0, 0, 1, 2, 5, 10, 0.5]))
        if players[s] == "Probabilistic":
            k = rng.randint(1, 3)
            targets = [rng.randrange(n) for _ in range(k)]
            weights = [rng.choice([1, 2, 3, 5]) for _ in range(k)]
            sink = rng.choice([bad, good, good])
            leak = rng.choice([2, 4, 10])
            tot = sum(weights) + leak
            row = [(w / tot, t) for w, t in zip(weights, targets)] + [(leak / tot, sink)]
            if rng.random() < 0.1:
                row = [(1, sink)]
            if rng.random() < 0.05:
                row = []           # dead state
        else:
            cands = list(range(s + 1, n)) + prob_states
            k = rng.randint(1, 3)
            row = [(f"a{j}", rng.choice(cands)) for j in range(k)]
            if rng.random() < 0.05:
                row = []
        trans.append(row)
    players += ["Probabilistic", "Probabilistic"]
    rewards += [0, 0]
    trans += [[(1, bad)], [(1, good)]]
    finals = [good]
    if rng.random() < 0.2 and n > 3:
        extra = rng.randrange(n - 2)
        finals.append(extra)
        rewards[extra] = 0      # a rewarding non-absorbing final state makes the clean solver diverge
    game = {"rewards": rewards, "players": players, "transition_list": trans, "final_states": finals}
    # occasional defects (still handled by run_games / reported in the message)
    k = rng.random()
    if k < 0.04:
        game["final_states"] = []
    elif k < 0.08:
        game["players"][0] = "Player 3"
    elif k < 0.12:
        game["rewards"][0] = -1
    elif k < 0.16:
        game["transition_list"] = trans[:-1]
    elif k < 0.20:
        game["final_states"] = [n + 3]
    elif k < 0.24:
        game["transition_list"][0] = [("a", 0, 1)] if players[0] != "Probabilistic" else [(0.5,)]
    elif k < 0.26:
        game["transition_list"][0] = "oops"
    return game


def write_random_inputs(directory, seed=1602, count=170):
    rng = random.Random(seed)
    stems = []
    for i in range(count):
        n_games = rng.choice([0, 1, 1, 2, 3, 3, 4]) if i else 0
        names = rng.sample(["game_1", "game_2", "g", "paper_game_3_b", "x_no_prune", "a_1_2_3", "G", "0", "_",
                            "robot_47_w10", "arrow down", "été"], n_games)
        games = {nm: rand_game(rng) for nm in names}
        stem = rng.choice(["rnd", "rnd_game", "r_1_2", "R", "x9_"]) + f"_{i}"
        text = "{\n" + "".join(f"    {nm!r}: {g!r},  # game\n" for nm, g in games.items()) + "}\n"
        with open(os.path.join(directory, stem + ".py"), "w", encoding="utf-8") as fh:
            fh.write(text)
        stems.append(stem)
    return stems


def main_cases(cr, R, root):
    def run_main(tag, argv, budget=8):
        cr.time = FakeTime()
        old_argv = sys.argv
        sys.argv = [os.path.join(root, "conditionalrewards.py")] + argv
        signal.signal(signal.SIGALRM, _alarm)
        signal.alarm(budget)
        try:
            res, out, err = observe(cr.main)
        finally:
            signal.alarm(0)
            sys.argv = old_argv
        snap = snapshot_outputs()
        if isinstance(snap, dict):
            snap = {k: shrink(v) for k, v in snap.items()}
        # err holds the logging last-resort output and argparse messages
        R[f"main/{tag}"] = [res, out, err, snap]

    for fn in SMALL_INPUTS:
        run_main(f"shipped/{fn}/save", ["-f", f"inputs/{fn}", "-s"])
    run_main("shipped/nosave", ["-f", f"inputs/{SMALL_INPUTS[0]}"])
    run_main("shipped/long_opts", ["--file", f"inputs/{SMALL_INPUTS[0]}", "--save_results"])
    run_main("shipped/abbrev", ["--fi", f"inputs/{SMALL_INPUTS[1]}", "--sa"])
    run_main("shipped/s_first", ["-s", "-f", f"./inputs/{SMALL_INPUTS[2]}"])
    run_main("shipped/abs", ["-s", "-f", os.path.abspath(f"inputs/{SMALL_INPUTS[0]}")])
    # names
    src = f"inputs/{SMALL_INPUTS[0]}"
    os.makedirs("inputs/sub.dir/deep_1", exist_ok=True)
    os.makedirs("elsewhere", exist_ok=True)
    for i, dst in enumerate(["inputs/my_game_2.v3.py", "inputs/sub.dir/deep_1/x_1.py", "elsewhere/noext",
                             "inputs/.hidden.py", "inputs/UP_per_7.TXT", "inputs/sp ace_1.py", "top_level_3.py",
                             "inputs/a__b_.py", "inputs/123.py", "inputs/tést_1.py", "inputs/back\\sl.py"]):
        shutil.copy(src, dst)
        run_main(f"names/{dst}", ["-f", dst, "-s"])
    # odd contents
    odd = {
        "empty_dict": "{}",
        "not_dict": "[1, 2]",
        "syntax": "{'a': ",
        "empty": "",
        "missing_key": "{'g': {'rewards': [0], 'players': ['Probabilistic'], 'transition_list': [[(1, 0)]]}}",
        "extra_key": "{'g': {'rewards': [0], 'players': ['Probabilistic'], 'transition_list': [[(1, 0)]], "
                     "'final_states': [0], 'prune_states': False, 'bogus': 1}}",
        "game_not_dict": "{'g': [1, 2]}",
        "nonstr_name": "{5: {'rewards': [0], 'players': ['Probabilistic'], 'transition_list': [[(1, 0)]], "
                       "'final_states': [0]}}",
        "single_final": "{'g_1': {'rewards': [0], 'players': ['Probabilistic'], 'transition_list': [[(1, 0)]], "
                        "'final_states': [0]}}",
        "with_prune_key": "{'g': {'rewards': [0, 0], 'players': ['Player 1', 'Probabilistic'], "
                          "'transition_list': [[('a', 1)], [(1, 1)]], 'final_states': [1], 'prune_states': False}}",
        "shared_game": "(lambda g: {'a_1': g, 'a_2': g})({'rewards': [1, 0], 'players': ['Player 2', "
                       "'Probabilistic'], 'transition_list': [[('a', 1), ('b', 1)], [(1, 1)]], 'final_states': [1]})",
        "no_reach": "{'g': {'rewards': [1, 0, 0], 'players': ['Probabilistic'] * 3, "
                    "'transition_list': [[(1, 1)], [(1, 1)], [(1, 2)]], 'final_states': [2]}, "
                    "'h': {'rewards': [1, 0], 'players': ['Probabilistic'] * 2, "
                    "'transition_list': [[(1, 1)], [(1, 1)]], 'final_states': [1]}}",
        "tuple_states": "{'g': {'rewards': (1, 0), 'players': ('Probabilistic', 'Probabilistic'), "
                        "'transition_list': [[(1, 1)], [(1, 1)]], 'final_states': (1,)}}",
    }
    for tag, text in odd.items():
        with open(f"inputs/odd_{tag}_1.py", "w") as fh:
            fh.write(text)
        run_main(f"odd/{tag}", ["-f", f"inputs/odd_{tag}_1.py", "-s"])
    run_main("odd/missing_file", ["-f", "inputs/nope.py", "-s"])
    run_main("odd/no_args", [])
    run_main("odd/help", ["-h"])
    run_main("odd/unknown", ["-f", src, "-x"])
    # the same run twice overwrites
    run_main("twice/1", ["-f", src, "-s"])
    # random input files through the whole pipeline, and run_games values themselves
    os.makedirs("rnd", exist_ok=True)
    for stem in write_random_inputs("rnd"):
        run_main(f"random/{stem}", ["-f", f"rnd/{stem}.py", "-s"], budget=3)
    for stem in sorted(os.listdir("rnd"))[:40]:
        cr.time = FakeTime()
        signal.alarm(3)
        try:
            R[f"run_games/{stem}"] = observe(lambda: cr.run_games(cr.read_dict_from_file(f"rnd/{stem}")))
        finally:
            signal.alarm(0)
    # outputs directory missing: nothing may be created
    os.rename("outputs", "outputs_away")
    run_main("odd/no_outputs_dir", ["-f", src, "-s"])
    os.rename("outputs_away", "outputs")


def worker(root, clean_inputs, result_path):
    sys.path.insert(0, root)
    import conditionalrewards as cr
    assert os.path.dirname(os.path.abspath(cr.__file__)) == os.path.abspath(root), cr.__file__
    R = {}
    R["module/public"] = sorted(n for n in ("save_results_to_file", "read_dict_from_file", "run_games", "set_logger",
                                           "init_parser", "main") if callable(getattr(cr, n, None)))
    import inspect
    R["module/signatures"] = {n: str(inspect.signature(getattr(cr, n))) for n in R["module/public"]}
    save_cases(cr, R)
    read_cases(cr, R, clean_inputs)
    parser_cases(cr, R)
    main_cases(cr, R, root)
    with open(result_path, "w") as fh:
        json.dump(R, fh)


# ----------------------------------------------------------------------------------
# driver side
# ----------------------------------------------------------------------------------
TIME_LINE = re.compile(r"^(Total time\s*: ).*$", re.M)
TRACE_FILE = re.compile(r'^  File ".*$\n(^    .*$\n)*', re.M)


def cli_runs(root, workdir):
    """Real command line invocations (python conditionalrewards.py ...)."""
    obs = {}
    script = os.path.join(root, "conditionalrewards.py")
    env = dict(os.environ, PYTHONDONTWRITEBYTECODE="1", COLUMNS="100")
    runs = {
        "save": ["-f", "inputs/example_17_08.py", "-s"],
        "save_info": ["-f", "inputs/example_games.py", "-s", "-l", "i"],
        "save_INFO": ["--file", "inputs/paper_games.py", "--save_results", "--log_level", "INFO"],
        "nosave_info": ["-f", "inputs/manual_1_game_a.py", "-l", "i"],
        "bad_level": ["-f", "inputs/example_17_08.py", "-s", "-l", "bogus"],
        "help": ["-h"],
        "noargs": [],
        "missing": ["-f", "inputs/nope.py", "-s"],
        "notdict": ["-f", "inputs/notdict_1.py", "-s"],
    }
    with open(os.path.join(workdir, "inputs", "notdict_1.py"), "w") as fh:
        fh.write("[1]")
    for tag, argv in runs.items():
        p = subprocess.run([PY, "-B", script] + argv, cwd=workdir, env=env, capture_output=True, text=True, timeout=60)
        out = TIME_LINE.sub(r"\1<t>", p.stdout)
        err = TIME_LINE.sub(r"\1<t>", p.stderr)
        err = re.sub(r"^(Total time\s+: ).*$", r"\1<t>", err, flags=re.M)
        err = TRACE_FILE.sub("  <frame>\n", err)     # tracebacks carry tree paths / line numbers
        files = {}
        outdir = os.path.join(workdir, "outputs")
        for fn in sorted(os.listdir(outdir)):
            with open(os.path.join(outdir, fn), "rb") as fh:
                files[fn] = TIME_LINE.sub(r"\1<t>", fh.read().decode("latin-1"))
            os.remove(os.path.join(outdir, fn))
        obs[f"cli/{tag}"] = [p.returncode, out, err, files]
    return obs


def observe_tree(root, clean_root):
    root = os.path.abspath(root)
    clean_inputs = os.path.join(os.path.abspath(clean_root), "inputs")
    workdir = tempfile.mkdtemp(prefix="c16_equiv_")
    try:
        os.mkdir(os.path.join(workdir, "inputs"))
        os.mkdir(os.path.join(workdir, "outputs"))
        for fn in SMALL_INPUTS:
            shutil.copy(os.path.join(clean_inputs, fn), os.path.join(workdir, "inputs", fn))
        result_path = os.path.join(workdir, "result.json")
        env = dict(os.environ, PYTHONDONTWRITEBYTECODE="1", COLUMNS="100", PYTHONHASHSEED="0")
        p = subprocess.run([PY, "-B", os.path.abspath(__file__), "--worker", root, clean_inputs, result_path],
                           cwd=workdir, env=env, capture_output=True, text=True, timeout=300)
        if p.returncode != 0 or not os.path.exists(result_path):
            print(f"worker for {root} failed (rc={p.returncode})")
            print(p.stdout[-3000:])
            print(p.stderr[-3000:])
            return None
        with open(result_path) as fh:
            obs = json.load(fh)
        obs.update(cli_runs(root, workdir))
        return obs
    finally:
        shutil.rmtree(workdir, ignore_errors=True)


def main():
    if len(sys.argv) >= 2 and sys.argv[1] == "--worker":
        worker(sys.argv[2], sys.argv[3], sys.argv[4])
        return 0
    if len(sys.argv) != 3:
        print(__doc__)
        return 2
    patched, clean = sys.argv[1], sys.argv[2]
    a = observe_tree(patched, clean)
    b = observe_tree(clean, clean)
    if a is None or b is None:
        print("FAIL")
        return 1
    diffs = []
    for key in sorted(set(a) | set(b)):
        if key not in a or key not in b:
            diffs.append((key, "only in one tree"))
        elif a[key] != b[key]:
            sa, sb = json.dumps(a[key]), json.dumps(b[key])
            i = next((j for j, (x, y) in enumerate(zip(sa, sb)) if x != y), min(len(sa), len(sb)))
            diffs.append((key, f"patched ...{sa[max(0, i - 80):i + 120]}\n      clean   ...{sb[max(0, i - 80):i + 120]}"))
    n_budget = sum(1 for k, v in b.items() if k.startswith(("main/", "run_games/")) and v and v[0] == ["budget"])
    print(f"{len(b)} observations compared ({n_budget} hit the time budget in the clean tree)")
    if diffs:
        for key, what in diffs[:25]:
            print(f"DIFF {key}\n      {what}")
        print(f"{len(diffs)} differing observations")
        print("FAIL")
        return 1
    print("PASS")
    return 0


if __name__ == "__main__":
    sys.exit(main())
