#!/usr/bin/env python
"""Behavioural equivalence check for property C01 (reachability values).

usage:  python equiv_test.py <path-to-patched-root> <path-to-clean-root>

Each tree is loaded in its own subprocess (``--worker <root>``).  The worker
runs a deterministic battery aimed at the quantifier of the property
("all well-formed games x pruning on/off x solver threshold") and dumps
``[key, repr-of-outcome]`` pairs as JSON; the parent compares the two dumps
key by key.  Prints PASS / exits 0 when nothing differs, FAIL / exits 1
otherwise.

What is exercised
  * StochasticGame.solve() on ~420 random well-formed games, both pruning
    modes (full result tuple or exception type+message, and that the caller's
    game description is left untouched);
  * Solver.solve_reachability / value_iteration_reachability driven directly
    with several thresholds (1e-6, 1e-3, 1e-9, 0.5, 1, 2.5), recording the
    strategies, the sweep count, every Node.reach_probability and
    expected_reach_min_rewards;
  * the three Bellman steps (value_iteration_reach) on hand-made state lists
    with ints, floats, ties, out-of-range values, nan and inf;
  * Node.__init__ initial reach_probability for truthy/falsy is_final_node;
  * reverse_dfs and every helper of reverse_dfs.py on random graphs (finals
    duplicated / unsorted / tuples / out of range), a 60000-deep chain;
  * malformed games (no finals, missing transitions, bad types, ...);
  * conditionalrewards.run_games + save_results_to_file on shipped inputs and
    on random three-game dictionaries (wall-clock fields removed);
  * two shipped board-generator inputs with thousands of states.

Budgets: the reachability phase always terminates; the total-rewards phase of
the clean tree does not converge on non-stopping games, so every solve gets a
deterministic budget (a cap on the number of value_iteration_rewards calls,
identical in both trees -> outcome "BUDGET") and, as a safety net, a
wall-clock alarm (outcome "WALLCLOCK").
"""
import json
import os
import subprocess
import sys
import tempfile

WALLCLOCK_SECONDS = 20
REWARD_SWEEPS_CAP = 400


# --------------------------------------------------------------------------
# worker side
# --------------------------------------------------------------------------

class _Budget(BaseException):
    pass


class _WallClock(BaseException):
    pass


def _outcome(fn):
    """repr of the result, or exception type + message."""
    import signal

    def _alarm(signum, frame):
        raise _WallClock()

    old = signal.signal(signal.SIGALRM, _alarm)
    signal.setitimer(signal.ITIMER_REAL, WALLCLOCK_SECONDS)
    try:
        return "OK " + repr(fn())
    except _Budget:
        return "BUDGET"
    except _WallClock:
        return "WALLCLOCK"
    except Exception as exc:  # noqa: BLE001 - we record every failure mode
        return "EXC %s: %s" % (type(exc).__name__, exc)
    finally:
        signal.setitimer(signal.ITIMER_REAL, 0)
        signal.signal(signal.SIGALRM, old)


P1, P2, PR = "Player 1", "Player 2", "Probabilistic"

NICE_SPLITS = {
    1: [[1], [1.0]],
    2: [[0.5, 0.5], [0.25, 0.75], [0.1, 0.9], [0.9, 0.1], [0.3, 0.7], [0.02, 0.98]],
    3: [[0.5, 0.25, 0.25], [0.8, 0.1, 0.1], [0.6, 0.3, 0.1], [0.2, 0.2, 0.6],
        [1 / 3, 1 / 3, 1 / 3], [0.125, 0.8, 0.075]],
    4: [[0.25, 0.25, 0.25, 0.25], [0.4, 0.3, 0.2, 0.1], [0.7, 0.1, 0.1, 0.1]],
}


def _split(rng, k, tiny):
    mode = rng.random()
    if tiny and k == 2 and mode < 0.5:
        eps = rng.choice([0.001, 0.002, 0.005])
        out = [eps, 1 - eps]
        rng.shuffle(out)
        return out
    if mode < 0.6:
        return list(rng.choice(NICE_SPLITS[k]))
    weights = [rng.uniform(0.05, 1.0) for _ in range(k)]
    total = sum(weights)
    return [w / total for w in weights]


def _transitions(rng, player, targets, tiny, tag):
    if player == PR:
        probs = _split(rng, len(targets), tiny)
        return [(p, t) for p, t in zip(probs, targets)]
    return [("%s%d" % (tag, j), t) for j, t in enumerate(targets)]


def gen_game(rng, n, style):
    """A random well-formed game description (dict of constructor kwargs)."""
    if style == "players_only":
        kinds = [P1, P2]
    elif style == "p2_heavy":
        kinds = [P2, P2, P2, P1, PR]
    elif style == "prob_heavy":
        kinds = [PR, PR, PR, P1, P2]
    else:
        kinds = [P1, P2, PR]
    players = [rng.choice(kinds) for _ in range(n)]
    tiny = rng.random() < 0.08
    max_out = rng.choice([1, 2, 2, 3, 3, 4])
    transition_list = []
    for s in range(n):
        k = rng.randint(1, max_out)
        if style == "dag":
            pool = list(range(s + 1, n)) or [s]
        elif style == "backward":
            pool = list(range(0, s)) or [s]
        elif style == "ring":
            pool = None
        else:
            pool = list(range(n))
        if pool is None:
            targets = [(s + 1) % n] + [rng.randrange(n) for _ in range(k - 1)]
        elif rng.random() < 0.15:
            targets = [rng.choice(pool) for _ in range(k)]      # duplicates allowed (ties)
        else:
            targets = rng.sample(pool, min(k, len(pool)))
        transition_list.append(_transitions(rng, players[s], targets, tiny, "a"))
    rewards = [rng.choice([0, 0, 1, 2, 3, 5]) for _ in range(n)]
    if rng.random() < 0.1:
        rewards = [float(r) / 2 for r in rewards]

    # final states: one or several, absorbing or not
    n_final = rng.choice([1, 1, 1, 2, 2, 3])
    finals = rng.sample(range(n), min(n_final, n))
    for f in finals:
        if rng.random() < 0.65:
            rewards[f] = 0
            transition_list[f] = [(1, f)] if players[f] == PR else [("stay", f)]
    # dead sinks and a dead two-state component
    others = [s for s in range(n) if s not in finals]
    rng.shuffle(others)
    n_dead = rng.choice([0, 1, 1, 2])
    for d in others[:n_dead]:
        rewards[d] = 0 if rng.random() < 0.8 else 1
        transition_list[d] = [(1.0, d)] if players[d] == PR else [("loop", d)]
    if len(others) >= n_dead + 2 and rng.random() < 0.3:
        a, b = others[n_dead], others[n_dead + 1]
        rewards[a] = rewards[b] = 0
        transition_list[a] = _transitions(rng, players[a], [b], tiny, "d")
        transition_list[b] = _transitions(rng, players[b], [a, b][: rng.choice([1, 2])], tiny, "d")
    # an occasional zero-probability edge (graph edge, no probability mass)
    if rng.random() < 0.08:
        cands = [s for s in range(n) if players[s] == PR and s not in finals]
        if cands:
            s = rng.choice(cands)
            transition_list[s] = transition_list[s] + [(0.0, rng.randrange(n))]
    if rng.random() < 0.5:
        finals = sorted(finals)
    return {"rewards": rewards, "players": players,
            "transition_list": transition_list, "final_states": finals}


def relabel(rng, game):
    """Random renumbering of the states (state 0 is not special any more)."""
    n = len(game["players"])
    perm = list(range(n))
    rng.shuffle(perm)            # old -> new
    inv = [0] * n
    for old, new in enumerate(perm):
        inv[new] = old
    return {
        "rewards": [game["rewards"][inv[new]] for new in range(n)],
        "players": [game["players"][inv[new]] for new in range(n)],
        "transition_list": [[(x, perm[t]) for x, t in game["transition_list"][inv[new]]]
                            for new in range(n)],
        "final_states": [perm[f] for f in game["final_states"]],
    }


def big_backward_game(rng, n):
    """Thousands of states, layered like the board generator; edges mostly go to
    lower indices so the ascending Gauss-Seidel sweep needs few iterations."""
    players, transition_list, rewards = [], [], []
    for s in range(n):
        players.append([P1, PR, P2][s % 3] if s > 3 else PR)
        rewards.append(rng.choice([0, 1, 2]))
    for s in range(n):
        if s == 1:
            transition_list.append([(1, 1)])       # goal, absorbing
        elif s == 2:
            transition_list.append([(1, 2)])       # trap, absorbing
        elif s == 0:
            transition_list.append([(0.5, n - 1), (0.5, n - 2)])
        elif s == 3:
            transition_list.append([(0.6, 1), (0.4, 2)])
        else:
            lo = max(1, s - 40)
            targets = sorted({rng.randrange(lo, s) for _ in range(rng.choice([1, 2, 3]))})
            if players[s] == PR and rng.random() < 0.2:
                targets.append(min(n - 1, s + rng.randrange(1, 5)))   # small back edge
            transition_list.append(_transitions(rng, players[s], targets, False, "m"))
    rewards[1] = rewards[2] = 0
    return {"rewards": rewards, "players": players,
            "transition_list": transition_list, "final_states": [1]}


def all_games(rng):
    games = []
    styles = ["random", "random", "dag", "ring", "players_only", "p2_heavy",
              "prob_heavy", "backward"]
    for i in range(420):
        style = styles[i % len(styles)]
        if i < 60:
            n = rng.randint(3, 5)
        elif i < 260:
            n = rng.randint(4, 14)
        else:
            n = rng.randint(10, 40)
        game = gen_game(rng, n, style)
        if rng.random() < 0.4:
            game = relabel(rng, game)
        games.append(("g%03d_%s_n%d" % (i, style, n), game))
    return games


HAND_GAMES = {
    # 3-state games
    "coin": {"rewards": [0, 0, 0], "players": [PR, PR, PR],
             "transition_list": [[(0.5, 1), (0.5, 2)], [(1, 1)], [(1, 2)]], "final_states": [1]},
    "retry": {"rewards": [1, 0, 0], "players": [PR, PR, PR],
              "transition_list": [[(0.5, 0), (0.3, 1), (0.2, 2)], [(1, 1)], [(1, 2)]],
              "final_states": [1]},
    "p1_loop_or_go": {"rewards": [0, 0, 0], "players": [P1, PR, PR],
                      "transition_list": [[("loop", 0), ("go", 1)], [(0.5, 2), (0.5, 0)], [(1, 2)]],
                      "final_states": [2]},
    "p2_end_component": {"rewards": [0, 0, 0, 0], "players": [P2, P2, PR, PR],
                         "transition_list": [[("a", 1), ("out", 2)], [("b", 0), ("out", 2)],
                                             [(1, 2)], [(1, 3)]],
                         "final_states": [2]},
    "p1_end_component": {"rewards": [0, 0, 0, 0], "players": [P1, P1, PR, PR],
                         "transition_list": [[("a", 1), ("bad", 3)], [("b", 0), ("bad", 3)],
                                             [(1, 2)], [(1, 3)]],
                         "final_states": [2]},
    "initial_is_final": {"rewards": [0, 0, 0], "players": [P1, PR, P2],
                         "transition_list": [[("x", 1), ("y", 2)], [(0.5, 0), (0.5, 2)], [("z", 2)]],
                         "final_states": [0]},
    "final_not_absorbing": {"rewards": [1, 2, 0, 0], "players": [PR, P2, PR, PR],
                            "transition_list": [[(0.5, 1), (0.5, 3)], [("a", 0), ("b", 2)],
                                                [(1, 2)], [(1, 3)]],
                            "final_states": [1]},
    "all_final": {"rewards": [0, 0, 0], "players": [P1, P2, PR],
                  "transition_list": [[("a", 1)], [("b", 2)], [(1, 0)]], "final_states": [0, 1, 2]},
    "finals_unsorted_dup": {"rewards": [0, 0, 0, 0, 0], "players": [PR, P1, P2, PR, PR],
                            "transition_list": [[(0.5, 1), (0.5, 2)], [("a", 3), ("b", 4)],
                                                [("c", 3), ("d", 4)], [(1, 3)], [(1, 4)]],
                            "final_states": [4, 3, 4]},
    "tie_everywhere": {"rewards": [0, 0, 0, 0, 0], "players": [P1, PR, PR, PR, PR],
                       "transition_list": [[("l", 1), ("r", 2), ("l2", 1)],
                                           [(0.5, 3), (0.5, 4)], [(0.5, 4), (0.5, 3)],
                                           [(1, 3)], [(1, 4)]],
                       "final_states": [3]},
    "unreachable_initial": {"rewards": [0, 0, 0], "players": [PR, PR, PR],
                            "transition_list": [[(1, 0)], [(1, 2)], [(1, 2)]], "final_states": [2]},
    "slow_cycle": {"rewards": [0, 0, 0, 0], "players": [PR, PR, PR, PR],
                   "transition_list": [[(0.999, 1), (0.001, 2)], [(0.999, 0), (0.001, 3)],
                                       [(1, 2)], [(1, 3)]],
                   "final_states": [2]},
    "int_probabilities": {"rewards": [0, 0, 0], "players": [PR, PR, PR],
                          "transition_list": [[(1, 1)], [(1, 2)], [(1, 2)]], "final_states": [2]},
    "bool_probability": {"rewards": [0, 0], "players": [PR, PR],
                         "transition_list": [[(True, 1)], [(True, 1)]], "final_states": [1]},
    "mass_below_one": {"rewards": [0, 0, 0], "players": [PR, PR, PR],
                       "transition_list": [[(0.3, 1), (0.3, 2)], [(1, 1)], [(1, 2)]],
                       "final_states": [1]},
    "mass_above_one": {"rewards": [0, 0, 0], "players": [PR, PR, PR],
                       "transition_list": [[(0.8, 1), (0.8, 0)], [(1, 1)], [(1, 2)]],
                       "final_states": [1]},
    "nan_probability": {"rewards": [0, 0, 0], "players": [PR, PR, PR],
                        "transition_list": [[(float("nan"), 1), (0.5, 2)], [(1, 1)], [(1, 2)]],
                        "final_states": [1]},
}

MALFORMED = {
    "no_finals": {"rewards": [0, 0], "players": [PR, PR],
                  "transition_list": [[(1, 1)], [(1, 1)]], "final_states": []},
    "finals_none": {"rewards": [0, 0], "players": [PR, PR],
                    "transition_list": [[(1, 1)], [(1, 1)]], "final_states": None},
    "finals_tuple": {"rewards": [0, 0], "players": [PR, PR],
                     "transition_list": [[(1, 1)], [(1, 1)]], "final_states": (1,)},
    "final_out_of_range": {"rewards": [0, 0], "players": [PR, PR],
                           "transition_list": [[(1, 1)], [(1, 1)]], "final_states": [2]},
    "final_negative": {"rewards": [0, 0], "players": [PR, PR],
                       "transition_list": [[(1, 1)], [(1, 1)]], "final_states": [-1]},
    "missing_transitions": {"rewards": [0, 0], "players": [PR, PR],
                            "transition_list": [[(1, 1)], []], "final_states": [1]},
    "short_transition_list": {"rewards": [0, 0], "players": [PR, PR],
                              "transition_list": [[(1, 1)]], "final_states": [1]},
    "short_rewards": {"rewards": [0], "players": [PR, PR],
                      "transition_list": [[(1, 1)], [(1, 1)]], "final_states": [1]},
    "negative_reward": {"rewards": [0, -1], "players": [PR, PR],
                        "transition_list": [[(1, 1)], [(1, 1)]], "final_states": [1]},
    "unknown_player": {"rewards": [0, 0], "players": [PR, "Player 3"],
                       "transition_list": [[(1, 1)], [(1, 1)]], "final_states": [1]},
    "transitions_tuple": {"rewards": [0, 0], "players": [PR, PR],
                          "transition_list": [((1, 1),), [(1, 1)]], "final_states": [1]},
    "transition_is_list": {"rewards": [0, 0], "players": [PR, PR],
                           "transition_list": [[[1, 1]], [(1, 1)]], "final_states": [1]},
    "transition_len3": {"rewards": [0, 0], "players": [PR, PR],
                        "transition_list": [[(1, 1, 1)], [(1, 1)]], "final_states": [1]},
    "action_not_str": {"rewards": [0, 0], "players": [P1, PR],
                       "transition_list": [[(1, 1)], [(1, 1)]], "final_states": [1]},
    "prob_is_str": {"rewards": [0, 0], "players": [PR, PR],
                    "transition_list": [[("1", 1)], [(1, 1)]], "final_states": [1]},
    "target_float": {"rewards": [0, 0], "players": [PR, PR],
                     "transition_list": [[(1, 1.0)], [(1, 1)]], "final_states": [1]},
    "target_out_of_range": {"rewards": [0, 0], "players": [PR, PR],
                            "transition_list": [[(1, 2)], [(1, 1)]], "final_states": [1]},
    "target_negative": {"rewards": [0, 0], "players": [PR, PR],
                        "transition_list": [[(1, -1)], [(1, 1)]], "final_states": [1]},
    "empty_game": {"rewards": [], "players": [], "transition_list": [], "final_states": [0]},
}


def worker(root):
    import copy
    import math
    import random

    root = os.path.realpath(root)
    sys.dont_write_bytecode = True
    sys.path.insert(0, root)
    workdir = tempfile.mkdtemp(prefix="c01_equiv_")
    os.makedirs(os.path.join(workdir, "outputs"))
    os.chdir(workdir)

    import logging
    logging.disable(logging.CRITICAL)

    import tad
    import reverse_dfs as rdfs
    import conditionalrewards as cr
    for mod in (tad, rdfs, cr):
        assert os.path.realpath(mod.__file__).startswith(root + os.sep), mod.__file__

    # deterministic budget for the (possibly non converging) total rewards phase
    calls = {"n": 0, "cap": 0, "exc": _Budget}

    def _capped(orig):
        def value_iteration_rewards(self, state_list):
            calls["n"] += 1
            if calls["n"] > calls["cap"]:
                raise calls["exc"]("budget of value_iteration_rewards calls exhausted")
            return orig(self, state_list)
        return value_iteration_rewards

    for cls in (tad.PlayerOne, tad.PlayerTwo, tad.ProbabilisticNode):
        cls.value_iteration_rewards = _capped(cls.value_iteration_rewards)

    _orig_solve_total_rewards = tad.Solver.solve_total_rewards

    def solve_total_rewards(self):
        calls["n"] = 0                       # the budget is per solve
        return _orig_solve_total_rewards(self)
    tad.Solver.solve_total_rewards = solve_total_rewards

    def arm(n_states, sweeps=REWARD_SWEEPS_CAP, exc=_Budget):
        # exc=ValueError makes the driver (which only catches ValueError) report the
        # exhausted budget as an unsolved game instead of aborting the whole batch
        calls["n"] = 0
        calls["cap"] = sweeps * max(1, n_states)
        calls["exc"] = exc

    out = []

    def rec(key, value):
        out.append([key, value])

    def full_solve(game, prune):
        kwargs = copy.deepcopy(game)
        snapshot = repr(kwargs)
        arm(len(game["players"]) if hasattr(game["players"], "__len__") else 1)
        res = _outcome(lambda: tad.StochasticGame(prune_states=prune, **kwargs).solve())
        return res, "inputs-untouched=%s" % (repr(kwargs) == snapshot)

    def reach_only(game, prune, threshold):
        kwargs = copy.deepcopy(game)

        def run():
            sg = tad.StochasticGame(prune_states=prune, **kwargs)
            sg.check_game()
            state_list = sg.init_states()
            solver = tad.Solver(threshold=threshold, state_list=state_list)
            info = {}
            try:
                strategies, sweeps = solver.solve_reachability(
                    sg.transition_list, sg.final_states, prune)
                info["strategies"] = strategies
                info["sweeps"] = sweeps
            except ValueError as exc:
                info["error"] = "%s: %s" % (type(exc).__name__, exc)
            info["reach"] = [s.reach_probability for s in state_list]
            info["reach_min_rew"] = [s.expected_reach_min_rewards for s in state_list]
            info["next_states"] = [s.next_states for s in state_list]
            return sorted(info.items())
        return _outcome(run)

    # ---- A/B: random and hand-made well-formed games -------------------------
    rng = random.Random(20240601)
    games = list(HAND_GAMES.items()) + all_games(rng)
    for name, game in games:
        for prune in (True, False):
            res, untouched = full_solve(game, prune)
            rec("solve/%s/prune=%s" % (name, prune), res)
            rec("solve-inputs/%s/prune=%s" % (name, prune), untouched)
            rec("reach/%s/prune=%s/thr=1e-6" % (name, prune), reach_only(game, prune, 10 ** (-6)))
        for thr in (1e-3, 1e-9, 0.5):
            rec("reach/%s/prune=False/thr=%r" % (name, thr), reach_only(game, False, thr))
    for name, game in games[:40]:
        for thr in (1, 1.0, 2.5, 0.999999):
            for prune in (True, False):
                rec("reach/%s/prune=%s/thr=%r" % (name, prune, thr), reach_only(game, prune, thr))

    # ---- big games ----------------------------------------------------------------
    for idx, n in enumerate((1500, 4000)):
        game = big_backward_game(random.Random(77 + idx), n)
        for prune in (True, False):
            rec("reach/big%d/prune=%s" % (n, prune), reach_only(game, prune, 10 ** (-6)))
        arm(n, sweeps=60)
        kwargs = copy.deepcopy(game)
        rec("solve/big%d" % n, _outcome(lambda: tad.StochasticGame(**kwargs).solve()))

    # ---- malformed games ---------------------------------------------------------
    for name, game in MALFORMED.items():
        for prune in (True, False):
            res, untouched = full_solve(game, prune)
            rec("malformed/%s/prune=%s" % (name, prune), res)
            rec("malformed-inputs/%s/prune=%s" % (name, prune), untouched)
    good = HAND_GAMES["coin"]
    for finals in ([], (), None, 0, [1], (1,), [7], [1, 1], {1}, [True]):
        def run(finals=finals):
            sg = tad.StochasticGame(**copy.deepcopy(good))
            state_list = sg.init_states()
            solver = tad.Solver(state_list=state_list)
            res = solver.solve_reachability(sg.transition_list, finals, True)
            return res, [s.reach_probability for s in state_list]
        rec("solve_reachability/finals=%r" % (finals,), _outcome(run))
    for thr in (0, -1, float("inf"), float("nan"), 1e-6, 10, "x"):
        rec("solver-init/thr=%r" % (thr,), _outcome(
            lambda thr=thr: (lambda s: (s.threshold, s.floor))(tad.Solver([], threshold=thr))))
    rec("vi-reach/empty-state-list/prune", _outcome(
        lambda: tad.Solver([]).value_iteration_reachability([], True)))
    rec("vi-reach/empty-state-list/noprune", _outcome(
        lambda: tad.Solver([]).value_iteration_reachability([], False)))

    def vi_direct(indices, prune):
        sg = tad.StochasticGame(**copy.deepcopy(HAND_GAMES["retry"]))
        state_list = sg.init_states()
        solver = tad.Solver(state_list=state_list)
        try:
            res = solver.value_iteration_reachability(indices, prune)
        except Exception as exc:  # noqa: BLE001
            res = "%s: %s" % (type(exc).__name__, exc)
        return res, [s.reach_probability for s in state_list], \
            [s.expected_reach_min_rewards for s in state_list]
    for indices in ([], [0], (0,), [0, 0], [2, 0], [0, 1, 2], [5], [0, 5], iter([0]), range(1)):
        for prune in (True, False):
            rec("vi-reach/direct/%r/prune=%s" % (indices if not hasattr(indices, "__next__")
                                                   else "iter", prune),
                _outcome(lambda: vi_direct(indices, prune)))

    # ---- D: Bellman steps on hand-made state lists ------------------------------------
    class Stub:
        def __init__(self, value):
            self.reach_probability = value

    values_pool = [0, 1, 0.0, 1.0, 0.5, 0.25, 0.75, 1e-9, 0.3333333333333333, 0.1, 0.7,
                   0.30000000000000004, 0.3, 1 - 1e-16, 5e-324]
    odd_pool = values_pool + [-0.5, 2, 1.5, float("nan"), float("inf"), -float("inf"), True, False]
    rng = random.Random(99)
    for case in range(600):
        pool = values_pool if case < 400 else odd_pool
        m = rng.randint(1, 6)
        stubs = [Stub(rng.choice(pool)) for _ in range(m)]
        k = rng.randint(1, 5) if case % 50 else 0
        targets = [rng.randrange(m) for _ in range(k)]
        probs = _split(rng, k, False) if k and k <= 4 else [rng.random() for _ in range(k)]
        if case % 7 == 0:
            probs = [rng.choice([0, 1, 0.5, 1.0, 0.0]) for _ in range(k)]
        acts = [("a%d" % j, t) for j, t in enumerate(targets)]
        nodes = [
            tad.PlayerOne(P1, 0, 1, list(acts), m, is_final_node=False),
            tad.PlayerTwo(P2, 0, 1, list(acts), m, is_final_node=bool(case % 2)),
            tad.ProbabilisticNode(PR, 0, 1, [(p, t) for p, t in zip(probs, targets)], m, False),
        ]
        for node in nodes:
            rec("bellman/%d/%s" % (case, type(node).__name__),
                _outcome(lambda: (node.value_iteration_reach(stubs), node.next_states,
                                  node.reach_probability)))
    p1 = tad.PlayerOne(P1, 0, 1, [("a", 3)], 9, False)
    rec("bellman/short-state-list", _outcome(lambda: p1.value_iteration_reach([Stub(1)])))
    p2 = tad.PlayerTwo(P2, 0, 1, [("a", 0), ("b", 3)], 9, False)
    rec("bellman/short-state-list-p2", _outcome(lambda: p2.value_iteration_reach([Stub(1)])))
    pn = tad.ProbabilisticNode(PR, 0, 1, [(0.5, 0), (0.5, 3)], 9, False)
    rec("bellman/short-state-list-prob", _outcome(lambda: pn.value_iteration_reach([Stub(1)])))
    rec("bellman/stub-without-attr", _outcome(lambda: p1.value_iteration_reach([0, 0, 0, object()])))

    # ---- E: Node.__init__ -----------------------------------------------------------------
    for cls_name in ("Node", "PlayerOne", "PlayerTwo", "ProbabilisticNode"):
        cls = getattr(tad, cls_name)
        player = {"PlayerOne": P1, "PlayerTwo": P2}.get(cls_name, PR)
        trans = [(1, 0)] if player == PR else [("a", 0)]
        for flag in (True, False, 1, 0, None, [], [0], "", "x", 0.0, 2):
            def build(cls=cls, player=player, trans=trans, flag=flag):
                node = cls(player, 0, 3, trans, 1, flag)
                return (node.reach_probability, type(node.reach_probability).__name__,
                        node.is_final_node, node.expected_rewards,
                        node.expected_rewards_min_reach, node.expected_reach_min_rewards,
                        node.next_states, node.next_states is trans, sorted(vars(node)))
            rec("node-init/%s/%r" % (cls_name, flag), _outcome(build))
    rec("node-init/bad-next", _outcome(lambda: tad.PlayerOne(P1, 0, 0, "ab", 1, False)))
    rec("node-init/default-final", _outcome(
        lambda: (tad.PlayerOne(P1, 0, 0, [("a", 0)], 1).reach_probability,
                 tad.PlayerTwo(P2, 0, 0, [("a", 0)], 1).reach_probability)))

    # ---- C: reverse_dfs and helpers -----------------------------------------------------------
    rng = random.Random(4242)
    for case in range(400):
        n = rng.randint(1, 25)
        density = rng.choice([0, 1, 1, 2, 3])
        tl = []
        for s in range(n):
            k = rng.randint(0, density)
            tl.append([(rng.choice(["a", "b", 0.5, 1]), rng.randrange(n)) for _ in range(k)])
        fk = rng.randint(0, min(3, n))
        finals = [rng.randrange(n) for _ in range(fk)]
        variants = [finals, tuple(finals), sorted(finals, reverse=True), finals + finals]
        for j, fin in enumerate(variants):
            snapshot = repr((tl, fin))
            rec("rdfs/%d/%d" % (case, j), _outcome(lambda: rdfs.reverse_dfs(tl, fin)))
            rec("rdfs-untouched/%d/%d" % (case, j), repr(repr((tl, fin)) == snapshot))
        rec("rdfs-type/%d" % case, _outcome(lambda: type(rdfs.reverse_dfs(tl, finals)).__name__))
        rec("rtl/%d" % case, _outcome(lambda: (lambda d: (type(d).__name__, d))(
            rdfs.reverse_transition_list(tl))))
        rec("rtl-core/%d" % case, _outcome(lambda: rdfs.reverse_transition_list_core(tl)))
        pairs = [(rng.randrange(n), rng.randrange(n)) for _ in range(rng.randint(0, 12))]
        rec("lt2dl/%d" % case, _outcome(lambda: (lambda d: (type(d).__name__, d))(
            rdfs.list_of_tuples_to_dict_of_lists(pairs))))
        base = {rng.randrange(n): [rng.randrange(n)] for _ in range(rng.randint(0, 4))}

        def ams(base=base, n=n):
            d = dict(base)
            r = rdfs.add_missing_states(d, n)
            return type(r).__name__, r, r is d
        rec("ams/%d" % case, _outcome(ams))

        def from_one(tl=tl, n=n):
            rt = rdfs.reverse_transition_list(tl)
            res = []
            for start in range(n):
                visited = {rng_fixed % n for rng_fixed in (start + 3, start + 5)} if start % 4 == 0 else set()
                before = sorted(visited)
                ret = rdfs.reverse_dfs_from(start, rt, visited)
                res.append((start, before, ret, sorted(visited)))
            return res
        rec("rdfs-from/%d" % case, _outcome(from_one))
    rec("rdfs/final-out-of-range", _outcome(lambda: rdfs.reverse_dfs([[("a", 0)]], [3])))
    rec("rdfs/final-negative", _outcome(lambda: rdfs.reverse_dfs([[("a", 0)], [("a", 0)]], [-1])))
    rec("rdfs/final-unhashable", _outcome(lambda: rdfs.reverse_dfs([[("a", 0)]], [[0]])))
    rec("rdfs/finals-none", _outcome(lambda: rdfs.reverse_dfs([[("a", 0)]], None)))
    rec("rdfs/finals-set", _outcome(lambda: rdfs.reverse_dfs([[("a", 1)], [("a", 1)]], {1})))
    rec("rdfs/finals-bool-float", _outcome(
        lambda: rdfs.reverse_dfs([[("a", 1)], [("a", 1)], [("a", 0)]], [1.0, True])))
    rec("rdfs/target-out-of-range", _outcome(lambda: rdfs.reverse_dfs([[("a", 5)], [("a", 0)]], [0])))
    rec("rdfs/target-out-of-range-final", _outcome(
        lambda: rdfs.reverse_dfs([[("a", 5)], [("a", 0)]], [5])))
    rec("rdfs/bad-transition", _outcome(lambda: rdfs.reverse_dfs([[("a", 0, 1)]], [0])))
    rec("rdfs/bad-transition-2", _outcome(lambda: rdfs.reverse_dfs([[5]], [0])))
    rec("rdfs/empty", _outcome(lambda: rdfs.reverse_dfs([], [])))
    rec("rdfs/empty-with-final", _outcome(lambda: rdfs.reverse_dfs([], [0])))
    deep = 60000
    chain = [[("n", i + 1)] for i in range(deep - 1)] + [[("stay", deep - 1)]]
    rec("rdfs/deep-chain", _outcome(
        lambda: (lambda r: (len(r), r[:3], r[-3:]))(rdfs.reverse_dfs(chain, [deep - 1]))))

    # ---- G: driver --------------------------------------------------------------------------------
    def strip(results):
        res = {}
        for name, entry in results.items():
            entry = dict(entry)
            tt = entry.pop("total_time")
            entry["total_time_type"] = type(tt).__name__
            res[name] = sorted(entry.items())
        return list(res.items())

    def report(results, file_name):
        cr.save_results_to_file(results, file_name)
        stem = file_name.split("/")[-1].split(".")[0]
        with open(os.path.join("outputs", stem + ".txt")) as fh:
            lines = fh.read().split("\n")
        return [ln if not ln.startswith("Total time") else "Total time: <t>" for ln in lines]

    shipped = ["example_games.py", "paper_games.py", "example_17_08.py", "manual_1_game_a.py",
               "manual_arrow_bottom.py", "robot_1_w2_l2_r6_rb10_lb5_tb10_lt0.py",
               "robot_999132423_w3_l3_r6_rb1_lb2_tb10_lt30.py",
               "robot_47_w5_l5_r6_rb10_lb10_tb10_lt30_force_down.py"]
    for fname in shipped:
        path = os.path.join(root, "inputs", fname)

        def drive(path=path):
            games_dict = cr.read_dict_from_file(path)
            arm(10 ** 6, sweeps=2)           # 2e6 calls per solve
            results = cr.run_games(games_dict)
            return strip(results), report(results, path)
        rec("driver/%s" % fname, _outcome(drive))

    rng = random.Random(555)
    pool = all_games(random.Random(31337))
    for case in range(25):
        picks = rng.sample(pool, 3)
        games_dict = {"game_%s" % tag: copy.deepcopy(g)
                      for tag, (_, g) in zip("abc", picks)}

        def drive(games_dict=games_dict, case=case):
            arm(10 ** 4, sweeps=2, exc=ValueError)   # 2e4 calls per solve
            results = cr.run_games(games_dict)
            return strip(results), report(results, "somewhere/random_%d.py" % case), \
                sorted(games_dict["game_a"].items())
        rec("driver/random%d" % case, _outcome(drive))

    # ---- H: large shipped board inputs, reachability only ------------------------------------------------
    for fname in ("robot_47_w10_l5_r6_rb10_lb10_tb10_lt30.py",
                  "robot_47_w20_l10_r6_rb10_lb10_tb10_lt30_force_down.py"):
        games_dict = cr.read_dict_from_file(os.path.join(root, "inputs", fname))
        for gname, game in games_dict.items():
            game = {k: v for k, v in game.items() if k != "prune_states"}
            for prune in (True, False):
                rec("board/%s/%s/prune=%s" % (fname, gname, prune),
                    reach_only(game, prune, 10 ** (-6)))

    json.dump(out, sys.stdout)
    sys.stdout.flush()
    try:
        import shutil
        os.chdir("/")
        shutil.rmtree(workdir, ignore_errors=True)
    except OSError:
        pass


# --------------------------------------------------------------------------
# parent side
# --------------------------------------------------------------------------

def main(argv):
    if len(argv) == 3 and argv[1] == "--worker":
        worker(argv[2])
        return 0
    if len(argv) != 3:
        print(__doc__)
        return 2
    patched, clean = argv[1], argv[2]
    env = dict(os.environ)
    env["PYTHONDONTWRITEBYTECODE"] = "1"
    env["PYTHONHASHSEED"] = "0"
    env.pop("PYTHONPATH", None)
    procs = []
    for root in (patched, clean):
        tmp = tempfile.TemporaryFile(mode="w+")
        err = tempfile.TemporaryFile(mode="w+")
        proc = subprocess.Popen([sys.executable, "-B", os.path.abspath(__file__), "--worker", root],
                                stdout=tmp, stderr=err, env=env, cwd=tempfile.gettempdir())
        procs.append((root, proc, tmp, err))
    dumps = []
    for root, proc, tmp, err in procs:
        try:
            code = proc.wait(timeout=600)
        except subprocess.TimeoutExpired:
            proc.kill()
            print("FAIL: worker for %s timed out" % root)
            return 1
        tmp.seek(0)
        err.seek(0)
        if code != 0:
            print("FAIL: worker for %s exited with %s\n%s" % (root, code, err.read()[-3000:]))
            return 1
        dumps.append(json.load(tmp))
    got, want = dumps
    diffs = []
    if [k for k, _ in got] != [k for k, _ in want]:
        diffs.append("key sequences differ (%d vs %d records)" % (len(got), len(want)))
    else:
        for (key, a), (_, b) in zip(got, want):
            if a != b:
                diffs.append("%s\n    patched: %s\n    clean  : %s" % (key, a[:600], b[:600]))
    stats = {}
    for _, value in want:
        tag = value.split(" ", 1)[0].rstrip(":")
        stats[tag] = stats.get(tag, 0) + 1
    print("records compared: %d  (clean tree outcomes: %s)" % (
        len(want), ", ".join("%s=%d" % kv for kv in sorted(stats.items()))))
    if diffs:
        print("FAIL: %d difference(s)" % len(diffs))
        for d in diffs[:15]:
            print(" -", d)
        return 1
    print("PASS")
    return 0


if __name__ == "__main__":
    sys.exit(main(sys.argv))
