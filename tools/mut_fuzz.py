#!/venv/bin/python
"""Systematic single-site mutation of the product code (detection side of the self-validation).

    tools/mut_fuzz.py [--only FILE] [--max N] [--out FILE]

Operators (one site at a time, rest of the file byte-identical):
    ror    relational operator replacement   < <= > >= == != in notin is isnot
    aor    + <-> -, * -> +
    lor    and <-> or
    neg    if c -> if not c ; while c -> while not c (only when the body has a break/return: otherwise it hangs)
    const  small integer / float / bool constants: c -> c+1, c -> c-1, True <-> False, 0.0 <-> 1.0
    idx    constant subscripts [0] <-> [1]
    del    deletion of an expression statement (call), of `continue` / `break`, of an assignment (replaced by `pass`)
    swap   exchange of the two arguments of a binary call / the first two positional arguments

A mutant is kept only if the pinned test suite still passes (those are the changes the tests cannot see).  Every kept mutant
is run through all seventeen checks.  Output: one line per kept mutant with the checks that report exit 1 / exit 2; mutants that
no check reports are listed as SURVIVOR for manual triage (equivalent mutant, or a miss).
"""
import ast
import copy
import json
import os
import shutil
import subprocess
import sys
import tempfile
from concurrent.futures import ThreadPoolExecutor

VERIF = os.path.dirname(os.path.dirname(os.path.abspath(__file__)))
PY = "/venv/bin/python"
FILES = ["tad.py", "reverse_dfs.py", "conditionalrewards.py", "roberta_generator.py", "stochastic_game_from_roborta_board.py"]

ROR = {ast.Lt: [ast.LtE, ast.Gt], ast.LtE: [ast.Lt, ast.GtE], ast.Gt: [ast.GtE, ast.Lt], ast.GtE: [ast.Gt, ast.LtE], ast.Eq: [ast.NotEq], ast.NotEq: [ast.Eq],
       ast.In: [ast.NotIn], ast.NotIn: [ast.In], ast.Is: [ast.IsNot], ast.IsNot: [ast.Is]}


FIELD_FAMILIES = [
    ("reach_probability", "expected_rewards", "expected_rewards_min_reach", "expected_reach_min_rewards"),
    ("rewards", "players", "transition_list", "final_states"),
    ("threshold", "floor"),
    ("seed", "width", "length", "max_reward"),
    ("prob_loose_tile", "prob_tile_break", "prob_robot_break", "prob_light_break"),
]


def _fam_prefix(prefix):
    return lambda name: prefix if name.startswith(prefix) and name != prefix else None


NAME_FAMILIES = [
    _fam_prefix("offset_"), _fam_prefix("prob_"), _fam_prefix("current_diff"), _fam_prefix("expected_"), _fam_prefix("n_iterations"), _fam_prefix("iterations_"),
    lambda name: "ij" if name in ("i", "j") else None,
    lambda name: "dims" if name in ("length", "width") else None,
    lambda name: "strategies" if name in ("reachability_strategies", "final_strategies") else None,
    lambda name: "minmax" if name in ("rewards_min_reach", "reach_min_rewards", "rewards", "probabilities") else None,
    lambda name: "states" if name in ("loosing_state", "winning_state") else None,
]


def mutants(path):
    text = open(path).read()
    tree = ast.parse(text)
    for p in ast.walk(tree):
        for c in ast.iter_child_nodes(p):
            c.parent = p
    lines = text.splitlines(keepends=True)

    def seg(node):
        a = sum(len(l) for l in lines[:node.lineno - 1]) + len(lines[node.lineno - 1].encode()[:node.col_offset].decode())
        b = sum(len(l) for l in lines[:node.end_lineno - 1]) + len(lines[node.end_lineno - 1].encode()[:node.end_col_offset].decode())
        return a, b

    def emit(kind, node, new_src):
        a, b = seg(node)
        out = text[:a] + new_src + text[b:]
        try:
            ast.parse(out)
        except SyntaxError:
            return None
        if out == text:
            return None
        return kind, node.lineno, "%s -> %s" % (text[a:b].replace("\n", " ")[:50], new_src.replace("\n", " ")[:50]), out

    def unparse_expr(e):
        return "(" + ast.unparse(e) + ")"

    in_logging = set()
    for n in ast.walk(tree):
        if isinstance(n, ast.Call) and isinstance(n.func, ast.Attribute) and isinstance(n.func.value, ast.Name) and n.func.value.id in ("logging", "parser"):
            for x in ast.walk(n):
                in_logging.add(id(x))
    for n in ast.walk(tree):
        if id(n) in in_logging:
            continue
        if isinstance(n, ast.Compare) and len(n.ops) == 1 and type(n.ops[0]) in ROR:
            for op in ROR[type(n.ops[0])]:
                new = copy.copy(n)
                new.ops = [op()]
                yield emit("ror", n, unparse_expr(new))
        if isinstance(n, ast.BinOp) and isinstance(n.op, (ast.Add, ast.Sub, ast.Mult)) and not any(isinstance(x, ast.Constant) and isinstance(x.value, str) for x in ast.walk(n)):
            for op in ({ast.Add: [ast.Sub], ast.Sub: [ast.Add], ast.Mult: [ast.Add]}[type(n.op)]):
                new = copy.copy(n)
                new.op = op()
                yield emit("aor", n, unparse_expr(new))
        if isinstance(n, ast.BoolOp):
            new = copy.copy(n)
            new.op = ast.Or() if isinstance(n.op, ast.And) else ast.And()
            yield emit("lor", n, unparse_expr(new))
        if isinstance(n, ast.If):
            a, b = seg(n.test)
            yield emit("neg", n.test, "not (" + text[a:b] + ")")
        if isinstance(n, ast.Constant) and not isinstance(getattr(n, "parent", None), (ast.Expr, ast.JoinedStr, ast.FormattedValue)):
            v = n.value
            if isinstance(v, bool):
                yield emit("const", n, repr(not v))
            elif isinstance(v, int) and abs(v) <= 10:
                yield emit("const", n, repr(v + 1))
                yield emit("const", n, repr(v - 1))
            elif isinstance(v, float):
                yield emit("const", n, repr(v * 2))
                yield emit("const", n, repr(v / 2))
        if isinstance(n, ast.Subscript) and isinstance(n.slice, ast.Constant) and n.slice.value in (0, 1) and isinstance(n.ctx, ast.Load):
            yield emit("idx", n.slice, repr(1 - n.slice.value))
        if isinstance(n, ast.Name) and isinstance(n.ctx, ast.Load) and n.id in ("ACTION", "PROBABILITY", "NEXT_STATE_IDX") and isinstance(getattr(n, "parent", None), ast.Subscript):
            yield emit("idx", n, "NEXT_STATE_IDX" if n.id != "NEXT_STATE_IDX" else "ACTION")
        if isinstance(n, ast.Expr) and isinstance(n.value, ast.Call) and not (isinstance(n.value.func, ast.Attribute) and isinstance(n.value.func.value, ast.Name) and n.value.func.value.id == "logging"):
            yield emit("del", n, "pass")
        if isinstance(n, (ast.Continue, ast.Break)):
            yield emit("del", n, "pass")
        if isinstance(n, (ast.Assign, ast.AugAssign)) and isinstance(getattr(n, "parent", None), (ast.For, ast.While, ast.If)):
            yield emit("del", n, "pass")
        if isinstance(n, ast.Call) and len(n.args) >= 2 and not n.keywords and not any(isinstance(a, ast.Starred) for a in n.args) \
                and not (isinstance(n.func, ast.Attribute) and isinstance(n.func.value, ast.Name) and n.func.value.id in ("logging", "parser")):
            new = copy.copy(n)
            new.args = [n.args[1], n.args[0]] + list(n.args[2:])
            yield emit("swap", n, ast.unparse(new))
        # wrong field: a sibling attribute of the same object family
        if isinstance(n, ast.Attribute) and not isinstance(getattr(n, "parent", None), ast.Call) or (isinstance(n, ast.Attribute) and isinstance(getattr(n, "parent", None), ast.Call) and n.parent.func is not n):
            for fam in FIELD_FAMILIES:
                if n.attr in fam:
                    for other in fam:
                        if other != n.attr:
                            a, b = seg(n)
                            new_src = text[a:b][:len(text[a:b]) - len(n.attr)] + other
                            yield emit("field", n, new_src)
        # wrong variable: another name of the same family in the same function
        if isinstance(n, ast.Name) and isinstance(n.ctx, ast.Load):
            fn = n
            while fn is not None and not isinstance(fn, ast.FunctionDef):
                fn = getattr(fn, "parent", None)
            if fn is not None:
                names = {x.id for x in ast.walk(fn) if isinstance(x, ast.Name)} | {a_.arg for a_ in fn.args.args}
                for fam in NAME_FAMILIES:
                    key = fam(n.id)
                    if key is None:
                        continue
                    for other in sorted(names):
                        if other != n.id and fam(other) == key:
                            yield emit("name", n, other)
        if isinstance(n, ast.Return) and n.value is not None and isinstance(n.value, ast.Tuple) and len(n.value.elts) >= 2:
            new = copy.copy(n.value)
            new.elts = [n.value.elts[1], n.value.elts[0]] + list(n.value.elts[2:])
            yield emit("swap", n.value, ast.unparse(new))


BASE_PATCH = None        # --base PATCH: mutate the tree obtained by applying PATCH to /repo HEAD (a behaviour-preserving twin)


def base_tree(d):
    subprocess.run("git -C /repo archive HEAD | tar -x -C %s" % d, shell=True, check=True)
    if BASE_PATCH:
        subprocess.run("cd %s && git init -q . && git apply %s" % (d, BASE_PATCH), shell=True, check=True)


def run_mutant(args):
    fname, kind, lineno, desc, new_text = args
    d = tempfile.mkdtemp(prefix="mutfuzz.")
    try:
        base_tree(d)
        open(os.path.join(d, fname), "w").write(new_text)
        p = subprocess.run(["timeout", "-k", "5", "90", PY, "-m", "pytest", "-q", "-p", "no:cacheprovider", "-x"], cwd=d, stdout=subprocess.PIPE, stderr=subprocess.STDOUT, text=True)
        if p.returncode != 0:
            return fname, kind, lineno, desc, None, None
        p = subprocess.run([PY, os.path.join(VERIF, "check"), "all", "--repo", d, "--quiet"], cwd=VERIF, stdout=subprocess.PIPE, stderr=subprocess.STDOUT, text=True,
                           env=dict(os.environ, VERIF_SELFVAL="1"))
        res = {}
        for l in p.stdout.splitlines():
            if l.startswith("-- C"):
                parts = l.split()
                res[parts[1]] = int(parts[3])
        rules = sorted({l.split()[1] for l in p.stdout.splitlines() if l.startswith("  VIOLATED")})
        return fname, kind, lineno, desc, res, rules
    finally:
        shutil.rmtree(d, ignore_errors=True)


def main():
    only = sys.argv[sys.argv.index("--only") + 1] if "--only" in sys.argv else None
    mx = int(sys.argv[sys.argv.index("--max") + 1]) if "--max" in sys.argv else None
    outp = sys.argv[sys.argv.index("--out") + 1] if "--out" in sys.argv else None
    global BASE_PATCH
    if "--base" in sys.argv:
        BASE_PATCH = os.path.abspath(sys.argv[sys.argv.index("--base") + 1])
    src_root = "/repo"
    if BASE_PATCH:
        src_root = tempfile.mkdtemp(prefix="mutbase.")
        base_tree(src_root)
    jobs = []
    for fn in FILES:
        if only and fn != only:
            continue
        seen = set()
        for m in mutants(os.path.join(src_root, fn)):
            if m is not None and m[3] not in seen:
                seen.add(m[3])
                jobs.append((fn, m[0], m[1], m[2], m[3]))
    if mx:
        jobs = jobs[:mx]
    print("%d mutants generated" % len(jobs))
    kept = caught = und = surv = 0
    records = []
    with ThreadPoolExecutor(max_workers=16) as ex:
        for fname, kind, lineno, desc, res, rules in ex.map(run_mutant, jobs):
            if res is None:
                continue
            kept += 1
            one = sorted(c for c, r in res.items() if r == 1)
            two = sorted(c for c, r in res.items() if r == 2)
            status = "caught" if one else ("UNDECIDED" if two else "SURVIVOR")
            caught += bool(one)
            und += (not one) and bool(two)
            surv += (not one) and (not two)
            records.append(dict(file=fname, kind=kind, line=lineno, desc=desc, status=status, exit1=one, exit2=two, rules=rules))
            if status != "caught":
                print("%-9s %-5s %s:%d  %s   exit2=%s" % (status, kind, fname, lineno, desc, two))
    print("summary: %d mutants pass the tests; %d caught (exit 1), %d undecided only, %d survivors" % (kept, caught, und, surv))
    if outp:
        json.dump(records, open(outp, "w"), indent=1)


if __name__ == "__main__":
    main()
