#!/venv/bin/python
"""Mechanical false-alarm probing: single-site, semantics-preserving rewrites of the product code.

    tools/equiv_fuzz.py [--tests] [--only FILE] [--max N]

Every eligible site of every product module gets, one at a time, one of these rewrites (the rest of the file is left
byte-identical; the rewritten node is re-printed with ast.unparse):

    flip      a < b  ->  b > a        (also <=, ==, !=; only when both operands are side-effect free)
    negate    if c: A else: B  ->  if not c: B else: A
    commute   a + b -> b + a, a * b -> b * a      (numeric operands only: no string / list literal on either side)
    augment   x += e  ->  x = x + e               (x a plain name or attribute; numeric as above)
    demorgan  not (a or b) -> (not a) and (not b); a != b -> not (a == b)
    lenzero   len(x) == 0 -> not x  (only in `if` tests)
    enum      for _, v in enumerate(xs) -> for v in xs

Each variant is written to a scratch copy (mkdtemp, removed afterwards), optionally run through the pinned tests, and all
seventeen checks are run on it.  A check that exits 1 on a variant is a FALSE ALARM (the rewrite cannot change behaviour);
exit 2 is reported as 'undecided'.  Nothing is installed; the summary goes to stdout.
"""
import ast
import copy
import os
import shutil
import subprocess
import sys
import tempfile
from concurrent.futures import ThreadPoolExecutor

VERIF = os.path.dirname(os.path.dirname(os.path.abspath(__file__)))
PY = "/venv/bin/python"
FILES = ["tad.py", "reverse_dfs.py", "conditionalrewards.py", "roberta_generator.py", "stochastic_game_from_roborta_board.py"]
ALL = ["C%02d" % i for i in range(1, 18)]
FLIP = {ast.Lt: ast.Gt, ast.Gt: ast.Lt, ast.LtE: ast.GtE, ast.GtE: ast.LtE, ast.Eq: ast.Eq, ast.NotEq: ast.NotEq}


def pure(e):
    return not any(isinstance(n, (ast.Call, ast.Yield, ast.Await, ast.NamedExpr)) for n in ast.walk(e)) or \
        all(isinstance(n.func, ast.Name) and n.func.id in ("len", "abs", "round", "int", "float", "min", "max") for n in ast.walk(e) if isinstance(n, ast.Call))


def numeric(e):
    """No evidence of a string / list operand (concatenation is not commutative)."""
    for n in ast.walk(e):
        if isinstance(n, ast.Constant) and isinstance(n.value, (str, bytes)):
            return False
        if isinstance(n, (ast.List, ast.Tuple, ast.ListComp, ast.JoinedStr, ast.Dict)):
            return False
        if isinstance(n, ast.Call) and isinstance(n.func, ast.Name) and n.func.id in ("str", "prob_to_str", "list", "repr"):
            return False
        if isinstance(n, ast.Name) and any(s in n.id.lower() for s in ("name", "str", "list", "text", "msg", "syntax", "sintax", "spaces", "file", "moves", "rewards", "transition", "players")):
            return False
        if isinstance(n, ast.Subscript) and isinstance(n.value, ast.Name) and n.value.id.isupper():
            return False
    return True


def variants(path):
    text = open(path).read()
    tree = ast.parse(text)
    for p in ast.walk(tree):
        for c in ast.iter_child_nodes(p):
            c.parent = p
    lines = text.splitlines(keepends=True)

    def seg(node):
        a = sum(len(l) for l in lines[:node.lineno - 1]) + len(lines[node.lineno - 1].encode()[:node.col_offset].decode())
        b = sum(len(l) for l in lines[:node.end_lineno - 1]) + len(lines[node.end_lineno - 1].encode()[:node.end_col_offset].decode())
        return a, b

    def emit(kind, node, new):
        a, b = seg(node)
        src = ast.unparse(new)
        if isinstance(node, ast.stmt):
            indent = " " * node.col_offset
            src = ("\n" + indent).join(src.splitlines())
        elif not isinstance(node, (ast.Name, ast.Constant, ast.Call, ast.Attribute, ast.Subscript)):
            src = "(" + src + ")"
        out = text[:a] + src + text[b:]
        try:
            ast.parse(out)
        except SyntaxError:
            return None
        return kind, node.lineno, out

    for n in ast.walk(tree):
        if isinstance(n, ast.Compare) and len(n.ops) == 1 and type(n.ops[0]) in FLIP and pure(n.left) and pure(n.comparators[0]):
            new = ast.Compare(left=n.comparators[0], ops=[FLIP[type(n.ops[0])]()], comparators=[n.left])
            yield emit("flip", n, new)
            if isinstance(n.ops[0], ast.NotEq):
                yield emit("demorgan", n, ast.UnaryOp(op=ast.Not(), operand=ast.Compare(left=n.left, ops=[ast.Eq()], comparators=n.comparators)))
            if isinstance(n.ops[0], ast.Eq) and isinstance(n.comparators[0], ast.Constant) and n.comparators[0].value == 0 and isinstance(n.left, ast.Call) \
                    and isinstance(n.left.func, ast.Name) and n.left.func.id == "len" and isinstance(getattr(n, "parent", None), ast.If) and n.parent.test is n:
                yield emit("lenzero", n, ast.UnaryOp(op=ast.Not(), operand=n.left.args[0]))
        if isinstance(n, ast.If) and n.orelse and not (len(n.orelse) == 1 and isinstance(n.orelse[0], ast.If)) and pure(n.test) \
                and not text[seg(n)[0]:seg(n)[0] + 4] == "elif":          # re-printing an `elif` arm as `if` would detach it from its chain
            new = ast.If(test=ast.UnaryOp(op=ast.Not(), operand=n.test), body=n.orelse, orelse=n.body)
            yield emit("negate", n, new)
        if isinstance(n, ast.BinOp) and isinstance(n.op, (ast.Add, ast.Mult)) and pure(n.left) and pure(n.right) and numeric(n):
            yield emit("commute", n, ast.BinOp(left=n.right, op=n.op, right=n.left))
        if isinstance(n, ast.AugAssign) and isinstance(n.op, (ast.Add, ast.Mult)) and isinstance(n.target, (ast.Name, ast.Attribute)) and numeric(n.value) and numeric(n.target):
            tgt_load = copy.deepcopy(n.target)
            tgt_load.ctx = ast.Load()
            yield emit("augment", n, ast.Assign(targets=[n.target], value=ast.BinOp(left=tgt_load, op=n.op, right=n.value), lineno=n.lineno))
        if isinstance(n, ast.UnaryOp) and isinstance(n.op, ast.Not) and isinstance(n.operand, ast.BoolOp) and isinstance(n.operand.op, ast.Or):
            yield emit("demorgan", n, ast.BoolOp(op=ast.And(), values=[ast.UnaryOp(op=ast.Not(), operand=v) for v in n.operand.values]))
        # --- fourth generation: comprehension <-> loop, conditional expression <-> if/else ----------------------------------
        if isinstance(n, ast.Assign) and len(n.targets) == 1 and isinstance(n.targets[0], ast.Name) and isinstance(n.value, ast.ListComp) and len(n.value.generators) == 1 \
                and not any(isinstance(x, ast.Name) and x.id == n.targets[0].id for x in ast.walk(n.value)) and isinstance(getattr(n, "parent", None), (ast.FunctionDef, ast.For, ast.If, ast.While, ast.With)):
            g = n.value.generators[0]
            x = n.targets[0].id
            app = ast.Expr(value=ast.Call(func=ast.Attribute(value=ast.Name(id=x, ctx=ast.Load()), attr="append", ctx=ast.Load()), args=[n.value.elt], keywords=[]))
            body = [app]
            for c in reversed(g.ifs):
                body = [ast.If(test=c, body=body, orelse=[])]
            loop = ast.For(target=g.target, iter=g.iter, body=body, orelse=[], lineno=n.lineno)
            init = ast.Assign(targets=[ast.Name(id=x, ctx=ast.Store())], value=ast.List(elts=[], ctx=ast.Load()), lineno=n.lineno)
            a, b = seg(n)
            indent = " " * n.col_offset
            src_new = ast.unparse(ast.fix_missing_locations(init)) + "\n" + indent + ("\n" + indent).join(ast.unparse(ast.fix_missing_locations(loop)).splitlines())
            out = text[:a] + src_new + text[b:]
            try:
                ast.parse(out)
                yield ("compr2loop", n.lineno, out)
            except SyntaxError:
                pass
        if isinstance(n, ast.Assign) and len(n.targets) == 1 and isinstance(n.targets[0], ast.Name) and isinstance(n.value, ast.IfExp):
            new = ast.If(test=n.value.test, body=[ast.Assign(targets=n.targets, value=n.value.body, lineno=n.lineno)],
                         orelse=[ast.Assign(targets=n.targets, value=n.value.orelse, lineno=n.lineno)])
            yield emit("ifexp2if", n, ast.fix_missing_locations(new))
        if isinstance(n, ast.If) and len(n.body) == 1 and len(n.orelse) == 1 and isinstance(n.body[0], ast.Assign) and isinstance(n.orelse[0], ast.Assign) \
                and len(n.body[0].targets) == 1 and ast.dump(n.body[0].targets[0]) == ast.dump(n.orelse[0].targets[0]) and isinstance(n.body[0].targets[0], ast.Name) \
                and not text[seg(n)[0]:seg(n)[0] + 4] == "elif":
            new = ast.Assign(targets=n.body[0].targets, value=ast.IfExp(test=n.test, body=n.body[0].value, orelse=n.orelse[0].value), lineno=n.lineno)
            yield emit("if2ifexp", n, ast.fix_missing_locations(new))
        # --- third generation: a logging line in front of a statement -------------------------------------------------
        if isinstance(n, ast.stmt) and not isinstance(n, (ast.FunctionDef, ast.ClassDef, ast.Import, ast.ImportFrom)) and isinstance(getattr(n, "parent", None), (ast.FunctionDef, ast.For, ast.While, ast.If, ast.With, ast.Try)) \
                and "logging" in text and not (isinstance(n, ast.Expr) and isinstance(n.value, ast.Constant)) and not text[seg(n)[0]:seg(n)[0] + 4] in ("elif", "else"):
            par = n.parent
            in_body = any(n is x for x in getattr(par, "body", []))
            first_doc = isinstance(par, ast.FunctionDef) and par.body and par.body[0] is n
            if (in_body or any(n is x for x in getattr(par, "orelse", []))) and not first_doc and not (isinstance(par, ast.If) and any(n is x for x in par.orelse) and len(par.orelse) == 1 and isinstance(n, ast.If)):
                a, _b = seg(n)
                indent = " " * n.col_offset
                out = text[:a] + 'logging.debug("checkpoint %d")\n%s' % (n.lineno, indent) + text[a:]
                try:
                    ast.parse(out)
                    yield ("loginsert", n.lineno, out)
                except SyntaxError:
                    pass
        # --- second generation -------------------------------------------------------------------------------------
        if isinstance(n, ast.If) and pure(n.test) and not text[seg(n)[0]:seg(n)[0] + 4] == "elif" and isinstance(getattr(n, "parent", None), (ast.FunctionDef, ast.For, ast.While, ast.If)) \
                and not any(isinstance(x, ast.NamedExpr) for x in ast.walk(n.test)):
            # tmp = <test>; if tmp: ...
            tmp = "_cond_%d" % n.lineno
            new_if = ast.If(test=ast.Name(id=tmp, ctx=ast.Load()), body=n.body, orelse=n.orelse)
            a, b = seg(n)
            indent = " " * n.col_offset
            src_new = "%s = %s\n%s%s" % (tmp, ast.unparse(n.test), indent, ("\n" + indent).join(ast.unparse(new_if).splitlines()))
            out = text[:a] + src_new + text[b:]
            try:
                ast.parse(out)
                yield ("tmpcond", n.lineno, out)
            except SyntaxError:
                pass
        if isinstance(n, ast.Return) and n.value is not None and not isinstance(n.value, (ast.Name, ast.Constant)):
            tmp = "_result_%d" % n.lineno
            a, b = seg(n)
            indent = " " * n.col_offset
            out = text[:a] + "%s = %s\n%sreturn %s" % (tmp, ast.unparse(n.value), indent, tmp) + text[b:]
            try:
                ast.parse(out)
                yield ("tmpret", n.lineno, out)
            except SyntaxError:
                pass
        if isinstance(n, ast.Expr) and isinstance(n.value, ast.Call) and isinstance(n.value.func, ast.Attribute) and n.value.func.attr == "append" \
                and isinstance(n.value.func.value, ast.Name) and len(n.value.args) == 1 and not n.value.keywords:
            new = ast.AugAssign(target=ast.Name(id=n.value.func.value.id, ctx=ast.Store()), op=ast.Add(), value=ast.List(elts=[n.value.args[0]], ctx=ast.Load()))
            yield emit("append+=", n, new)
        if isinstance(n, ast.FunctionDef):
            # rename one local variable of the function (first plain local that is not a parameter / global / attribute)
            params = {a.arg for a in n.args.args + n.args.kwonlyargs + n.args.posonlyargs}
            stores = []
            for x in ast.walk(n):
                if isinstance(x, ast.Name) and isinstance(x.ctx, ast.Store) and x.id not in params and not x.id.startswith("_") and x.id not in stores:
                    stores.append(x.id)
            nested = any(isinstance(x, (ast.FunctionDef, ast.Lambda, ast.Global, ast.Nonlocal)) for x in ast.walk(n) if x is not n)
            if stores and not nested:
                import re as _re
                a, b = seg(n)
                body = text[a:b]
                for old_name in stores[:2]:
                    new_name = old_name + "_v"
                    if _re.search(r"\b%s\b" % new_name, body):
                        continue
                    # do not touch keyword arguments / attributes / strings of the same spelling
                    if _re.search(r"[.'\"]%s\b|\b%s\s*=(?!=)[^\n]*\)" % (old_name, old_name), body) and _re.search(r"\(%s=|, %s=|\.%s\b|['\"]%s['\"]" % ((old_name,) * 4), body):
                        continue
                    out = text[:a] + _re.sub(r"\b%s\b" % old_name, new_name, body) + text[b:]
                    try:
                        ast.parse(out)
                        yield ("rename:" + old_name, n.lineno, out)
                    except SyntaxError:
                        pass
        if isinstance(n, ast.For) and isinstance(n.iter, ast.Call) and isinstance(n.iter.func, ast.Name) and n.iter.func.id == "enumerate" and len(n.iter.args) == 1 \
                and isinstance(n.target, ast.Tuple) and len(n.target.elts) == 2 and isinstance(n.target.elts[0], ast.Name) and n.target.elts[0].id == "_":
            new = ast.For(target=n.target.elts[1], iter=n.iter.args[0], body=n.body, orelse=n.orelse, lineno=n.lineno)
            yield emit("enum", n, new)


def run_variant(args):
    fname, kind, lineno, new_text, with_tests = args
    d = tempfile.mkdtemp(prefix="eqfuzz.")
    try:
        subprocess.run("git -C /repo archive HEAD | tar -x -C %s" % d, shell=True, check=True)
        if BASE_PATCH:
            subprocess.run("cd %s && git init -q . && git apply %s" % (d, BASE_PATCH), shell=True, check=True)
        open(os.path.join(d, fname), "w").write(new_text)
        tests = None
        if with_tests:
            p = subprocess.run(["timeout", "-k", "5", "120", PY, "-m", "pytest", "-q", "-p", "no:cacheprovider", "-x"], cwd=d, stdout=subprocess.PIPE, stderr=subprocess.STDOUT, text=True)
            tests = p.returncode == 0
        res = {}
        p = subprocess.run([PY, os.path.join(VERIF, "check"), "all", "--repo", d, "--quiet"], cwd=VERIF, stdout=subprocess.PIPE, stderr=subprocess.STDOUT, text=True,
                           env=dict(os.environ, VERIF_SELFVAL="1"))
        cur = None
        lines = []
        for l in p.stdout.splitlines():
            if l.startswith("-- C"):
                parts = l.split()
                res[parts[1]] = int(parts[3])
            if l.startswith(("  VIOLATED", "  UNDECIDED", "ANALYSIS-ERROR")):
                lines.append(l.strip()[:220])
        return fname, kind, lineno, tests, res, lines
    finally:
        shutil.rmtree(d, ignore_errors=True)


BASE_PATCH = None        # --base PATCH: rewrite the tree obtained by applying PATCH (a behaviour-preserving twin) to /repo HEAD


def main():
    global BASE_PATCH
    src_root = "/repo"
    if "--base" in sys.argv:
        BASE_PATCH = os.path.abspath(sys.argv[sys.argv.index("--base") + 1])
        src_root = tempfile.mkdtemp(prefix="eqbase.")
        subprocess.run("git -C /repo archive HEAD | tar -x -C %s && cd %s && git init -q . && git apply %s" % (src_root, src_root, BASE_PATCH), shell=True, check=True)
    with_tests = "--tests" in sys.argv
    only = sys.argv[sys.argv.index("--only") + 1] if "--only" in sys.argv else None
    mx = int(sys.argv[sys.argv.index("--max") + 1]) if "--max" in sys.argv else None
    jobs = []
    for fn in FILES:
        if only and fn != only:
            continue
        for v in variants(os.path.join(src_root, fn)):
            if v is not None:
                jobs.append((fn, v[0], v[1], v[2], with_tests))
    if mx:
        jobs = jobs[:mx]
    print("%d variants" % len(jobs))
    alarms = undec = 0
    with ThreadPoolExecutor(max_workers=16) as ex:
        for fname, kind, lineno, tests, res, lines in ex.map(run_variant, jobs):
            bad1 = sorted(c for c, r in res.items() if r == 1)
            bad2 = sorted(c for c, r in res.items() if r == 2)
            if bad1 or bad2 or tests is False:
                alarms += bool(bad1)
                undec += bool(bad2) and not bad1
                print("%-8s %s:%d tests=%s FALSE-ALARM=%s undecided=%s" % (kind, fname, lineno, tests, bad1, bad2))
                for l in lines[:3]:
                    print("         " + l)
    print("summary: %d variants, %d with a false alarm, %d undecided only" % (len(jobs), alarms, undec))


if __name__ == "__main__":
    main()
