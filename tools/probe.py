#!/venv/bin/python
"""Ad-hoc probing: apply the entries of a probe file (same M/T vocabulary as selftest/catalogue.py) to scratch copies of
/repo, run the pinned test suite on each (to know whether the edit would be noticed by the tests) and the named checks.

    tools/probe.py <probe-file.py> [--no-tests]

Prints one line per entry; nothing is installed.  Entries worth keeping are moved into selftest/catalogue.py by hand.
"""
import os
import shutil
import subprocess
import sys
import tempfile
from concurrent.futures import ThreadPoolExecutor

VERIF = os.path.dirname(os.path.dirname(os.path.abspath(__file__)))
sys.path.insert(0, VERIF)
from selftest import runner  # noqa: E402

ENTRIES = []
TAD, RDFS, CR, GEN, SG = "tad.py", "reverse_dfs.py", "conditionalrewards.py", "roberta_generator.py", "stochastic_game_from_roborta_board.py"


def M(pids, file, func, old, new, desc):
    ENTRIES.append(dict(kind="M", pids=pids.split(), file=file, func=func, old=old, new=new, desc=desc))


def T(pids, file, func, old, new, desc):
    ENTRIES.append(dict(kind="T", pids=pids.split(), file=file, func=func, old=old, new=new, desc=desc))


def one(e):
    d = tempfile.mkdtemp(prefix="probe.")
    try:
        subprocess.run("git -C /repo archive HEAD | tar -x -C %s" % d, shell=True, check=True)
        ok, why = runner.apply_entry(d, e)
        if not ok:
            return e, "N/A " + why, {}
        tests = "?"
        if "--no-tests" not in sys.argv:
            try:
                p = subprocess.run(["timeout", "-k", "5", "120", "/venv/bin/python", "-m", "pytest", "-q", "-p", "no:cacheprovider", "-x"], cwd=d,
                                   stdout=subprocess.PIPE, stderr=subprocess.STDOUT, text=True)
                tests = "tests-pass" if p.returncode == 0 else ("TESTS-HANG" if p.returncode in (124, 137) else "TESTS-FAIL")
            except Exception:
                tests = "TESTS-ERR"
        res = {}
        for pid in e["pids"]:
            res[pid] = runner._run_check(pid, d)
        return e, tests, res
    finally:
        shutil.rmtree(d, ignore_errors=True)


def main():
    src = open(sys.argv[1]).read()
    exec(compile(src, sys.argv[1], "exec"), dict(M=M, T=T, TAD=TAD, RDFS=RDFS, CR=CR, GEN=GEN, SG=SG))
    with ThreadPoolExecutor(max_workers=16) as ex:
        for e, tests, res in ex.map(one, ENTRIES):
            codes = " ".join("%s=%d%s" % (p, r[0], ("[" + ",".join(r[1]) + "]") if r[1] else "") for p, r in res.items())
            if e["kind"] == "M":
                verdict = "caught" if any(r[0] == 1 for r in res.values()) else ("UNDECIDED" if any(r[0] == 2 for r in res.values()) else "MISSED")
            else:
                verdict = "silent" if all(r[0] == 0 for r in res.values()) else ("NOISY-undecided" if all(r[0] != 1 for r in res.values()) else "FALSE-ALARM")
            print("%-16s %s %-10s %s :: %s" % (verdict, e["kind"], tests, codes, e["desc"]))


if __name__ == "__main__":
    main()
