#!/venv/bin/python
"""Confirm and evaluate faults that were seeded *on top of a feature twin* (round five).

    tools/seed_eval2.py <root> [--install]      root/<Fxx-k>/{base.diff, property.json, <n>/{patch.diff, demo.py, notes.md}}

patch.diff is relative to /repo HEAD (feature twin + fault).  Confirmation: the patch applies to a scratch copy of HEAD, the
pinned tests pass, demo.py exits non-zero on it and exits 0 on HEAD + base.diff (the correct feature).  Then every check is run
on the patched copy.  Installed as /verif/seeded/<Cxx>-g<k><n>/.
"""
import json
import os
import shutil
import subprocess
import sys
import tempfile
from concurrent.futures import ThreadPoolExecutor

VERIF = os.path.dirname(os.path.dirname(os.path.abspath(__file__)))
PY = "/venv/bin/python"
ALL = ["C%02d" % i for i in range(1, 18)]


def sh(cmd, cwd=None, timeout=900):
    try:
        p = subprocess.run(cmd, cwd=cwd, stdout=subprocess.PIPE, stderr=subprocess.STDOUT, text=True, timeout=timeout)
    except subprocess.TimeoutExpired:
        return 124, "TIMEOUT"
    return p.returncode, p.stdout


def tree(patch):
    d = tempfile.mkdtemp(prefix="seedeval2.")
    subprocess.run("git -C /repo archive HEAD | tar -x -C %s" % d, shell=True, check=True)
    sh(["git", "init", "-q", "."], cwd=d)
    rc, o = sh(["git", "apply", patch], cwd=d)
    return d, rc, o


def evaluate(fdir, fid, n):
    pid = "C" + fid[1:3]
    cand = os.path.join(fdir, n)
    out = {"id": "%s-g%s%s" % (pid, fid.split("-")[1], n), "property": pid, "dir": cand, "on_top_of": fid}
    d, rc, o = tree(os.path.join(cand, "patch.diff"))
    b = None
    try:
        out["applies"] = rc == 0
        if rc != 0:
            out["error"] = o[-300:]
            return out
        rc, o = sh([PY, "-m", "pytest", "-q", "-p", "no:cacheprovider", "-x"], cwd=d)
        out["tests_pass"] = rc == 0 and "57 passed" in o
        rc, o = sh([PY, os.path.join(cand, "demo.py"), d], cwd=tempfile.gettempdir(), timeout=300)
        out["demo_fails_with_patch"] = rc not in (0, 124)
        out["demo_patched_timeout"] = rc == 124
        b, rcb, ob = tree(os.path.join(fdir, "base.diff"))
        rc, o = sh([PY, os.path.join(cand, "demo.py"), b], cwd=tempfile.gettempdir(), timeout=300)
        out["demo_passes_on_feature"] = rcb == 0 and rc == 0
        out["confirmed"] = bool(out["tests_pass"] and out["demo_fails_with_patch"] and out["demo_passes_on_feature"])
        res = {}
        for c in ALL:
            rc, o = sh([PY, os.path.join(VERIF, "check"), c, "--repo", d, "--quiet"], cwd=VERIF)
            res[c] = {"exit": rc, "rules": sorted({l.split()[1] for l in o.splitlines() if l.startswith("  VIOLATED")})}
        out["checks"] = res
        out["detected_by"] = sorted(c for c, r in res.items() if r["exit"] == 1)
        out["undecided_by"] = sorted(c for c, r in res.items() if r["exit"] == 2)
    finally:
        shutil.rmtree(d, ignore_errors=True)
        if b:
            shutil.rmtree(b, ignore_errors=True)
    return out


def main():
    args = [a for a in sys.argv[1:] if a != "--install"]
    install = "--install" in sys.argv
    root = args[0]
    cands = []
    for fid in sorted(os.listdir(root)):
        fdir = os.path.join(root, fid)
        if not (fid.startswith("F") and os.path.isdir(fdir)):
            continue
        for n in ("1", "2"):
            if os.path.exists(os.path.join(fdir, n, "patch.diff")) and os.path.exists(os.path.join(fdir, n, "demo.py")):
                cands.append((fdir, fid, n))
    only = os.environ.get("ONLY")
    if only:
        cands = [c for c in cands if c[1] in only.split(",")]
    with ThreadPoolExecutor(max_workers=6) as ex:
        results = list(ex.map(lambda c: evaluate(*c), cands))
    for r in results:
        own = r.get("checks", {}).get(r["property"], {})
        print("%-9s on %-6s confirmed=%-5s own-check exit=%s rules=%s | detected_by=%s undecided_by=%s" % (
            r["id"], r["on_top_of"], r.get("confirmed"), own.get("exit"), own.get("rules"), r.get("detected_by"), r.get("undecided_by")))
        if not r.get("confirmed"):
            print("        ", {k: r.get(k) for k in ("applies", "tests_pass", "demo_fails_with_patch", "demo_passes_on_feature", "error")})
        if install and r.get("confirmed"):
            dst = os.path.join(VERIF, "seeded", r["id"])
            os.makedirs(dst, exist_ok=True)
            for fn in ("patch.diff", "fault_only.diff", "demo.py", "notes.md"):
                if os.path.exists(os.path.join(r["dir"], fn)):
                    shutil.copy(os.path.join(r["dir"], fn), os.path.join(dst, fn))
            notes = open(os.path.join(r["dir"], "notes.md")).read() if os.path.exists(os.path.join(r["dir"], "notes.md")) else ""
            json.dump({"id": r["id"], "breaks_property": r["property"], "on_top_of": "twins/" + r["on_top_of"],
                       "origin": "independent sub-agent given the property text and a scratch worktree holding a correct feature-shaped change (the twin named in on_top_of); the fault lives in the new code of that change",
                       "needs_to_manifest": notes.strip()[:1500],
                       "confirmed_by": ["git apply on a scratch copy of /repo HEAD", "pinned test suite: 57 passed with the patch",
                                        "demo.py exits 1 on the patched copy and 0 on HEAD + the correct feature"],
                       "detected_by": r["detected_by"], "undecided_by": r["undecided_by"], "checks": r["checks"]},
                      open(os.path.join(dst, "meta.json"), "w"), indent=1)
    json.dump(results, open(os.path.join(tempfile.gettempdir(), "seed_eval2_last.json"), "w"), indent=1)


if __name__ == "__main__":
    main()
