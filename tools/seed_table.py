#!/venv/bin/python
"""Markdown table of the seeded faults and the rules that report them (from seeded/*/meta.json and notes.md)."""
import glob, json, os, re, sys
suffix = sys.argv[1] if len(sys.argv) > 1 else ""
rows = []
for d in sorted(glob.glob(os.path.join(os.path.dirname(os.path.dirname(os.path.abspath(__file__))), "seeded", "*", "meta.json"))):
    m = json.load(open(d))
    if suffix and not m["id"].endswith(suffix):
        continue
    if not suffix and m["id"][-1].isalpha():
        continue
    own = m["checks"].get(m["breaks_property"], {})
    np_ = os.path.join(os.path.dirname(d), "notes.md")
    notes = open(np_).read() if os.path.exists(np_) else ""
    first = ""
    for l in notes.splitlines():
        l = l.strip().lstrip("#*- ").strip()
        if len(l) > 25:
            first = re.sub(r"[`|]", "", l)[:110]
            break
    others = [c for c in m["detected_by"] if c != m["breaks_property"]]
    rows.append("| %s | %s | %s | %s |" % (m["id"], first, ", ".join(own.get("rules", [])), ", ".join(others) or "-"))
print("| seed | what it is (first line of its notes) | rules of its own property that fire | other properties that also fire |")
print("|------|--------------------------------------|--------------------------------------|----------------------------------|")
print("\n".join(rows))
