#!/venv/bin/python
"""Regenerates /verif/MANIFEST.json from the table below (claimed = rule module exists and is listed here)."""
import json
import os

HERE = os.path.dirname(os.path.dirname(os.path.abspath(__file__)))

BASELINE = "cd /repo && /venv/bin/python -m pytest -ra -q -p no:cacheprovider --timeout=900 --continue-on-collection-errors"

CLAIMS = {
    "C01": dict(
        text="Structural part only: Bellman kernels are SUM/MAX/MIN over the whole successor list on the right field, start from below, "
             "reach_probability written only by constructor and sweep, sweep domain = unmodified backward-search result (C07 prerequisites), "
             "exit test is exactly change<=threshold with per-sweep max|new-old|, prune flag reaches only the 'no solution' raise. "
             "Decides that part and NOT the numerical distance to the true game value.",
        note="Trusted: CPython ast, the engines in sa/, the specification normal forms in sa/rules/C01.py. Assumes well-formed input (C09) and probabilities in [0,1].",
        technique="symbolic loop normal forms + field-write census + def-use slice (ast)", ref="5/C01"),
    "C03": dict(
        text="Decided almost in full: iterator invalidation (points-to/effects over all 32 loops, through calls), survivor predicate exactly reach!=0 for every element, "
             "renormalisation by surviving mass in original order, Player 2 has no shrinking capability and the clearing store is guarded by a complete pointed-to set, "
             "dispatch covers all P1/probabilistic states, every post-construction write to next_states shrinks it. Equality of 'surviving mass' and '1-removed mass' assumes probabilities sum to 1.",
        note="Trusted: ast, sa/ engines, canary canaries/iter_invalidation.py. Allocation-site abstraction refined by a freshness rule for locals.",
        technique="points-to + effect analysis, symbolic comprehension normal forms (ast)", ref="5/C03"),
    "C04": dict(
        text="Selection rule only: both extractors are ARGSET_MAX/MIN with key round(R[t], d), reset on strictly better / append on equal, labels in list order; "
             "d folded from the threshold literal through Solver.__init__ and consistent with it; role table P1->best, P2->worst, else None at state.idx for the whole list; "
             "computed before and independently of pruning. Does NOT decide whether equal values computed along different float paths round alike.",
        note="Trusted: ast, sa/ engines, spec rows in sa/rules/C04.py.",
        technique="symbolic arg-set normal forms + constant folding (ast)", ref="5/C04"),
    "C07": dict(
        text="Decided in full for the recognised worklist idiom: no recursion (call-graph SCC), every final is a root, marked=>pushed invariant, guard on the marked collection, "
             "every predecessor examined, result = sorted FILTER(not final) of a duplicate-free visited set, reversed table one pair per transition / grouping keeps multiplicity / entry for every state. Holds for graphs of any size.",
        note="Trusted: ast, sa/ engines. Other search shapes are reported undecided (exit 2), never passed.",
        technique="call-graph SCC + CFG typestate + symbolic loop normal forms (ast)", ref="5/C07"),
    "C10": dict(
        text="Input ownership by points-to/effect analysis (no in-place operation reachable from solve() on an alias of a constructor argument), no carried state "
             "(no global/class attribute/module object/mutable default/game-object field written while solving), no entropy source, sets sorted before enumeration into results. "
             "Identical repeated results follow from these; bit-identical floats are not separately checked.",
        note="Trusted: ast, sa/pointsto.py (field-based, flow-insensitive except transient constructor stores), input schema from the class docstring, canary canaries/input_alias.py.",
        technique="Andersen-style points-to + effect analysis over the resolved call graph (ast)", ref="5/C10"),
}

CLAIMS.update({
    "C02": dict(
        text="Structural part only: pipeline partial order in solve() by CFG dominance (validate, build, reachability, unconditional restriction, pruning iff flag, reward solve, read results), "
             "reward kernels reward+SUM/MAX/MIN over the whole successor list with (0,0,0) for an empty list, sweep over all states storing the three results in slot order with stop rule over all three changes, "
             "restriction by the very strategies that are reported; conditioning rules C03.1-3/5 re-evaluated. Decides that part and NOT convergence / closeness to the conditioned game's value.",
        note="Trusted: ast, sa/ engines, spec rows in sa/rules/C02.py. Assumes rewards >= 0.",
        technique="CFG dominance + symbolic kernel/sweep normal forms (ast)", ref="5/C02"),
    "C05": dict(
        text="Inclusion final-subset-of-reachability decided as a chain of static facts valid for all games (restriction by reported strategies dominates the reward solve; restriction is FILTER(action in best) without fallback; "
             "no later write can add a transition; labels drawn from the state's own list; extraction after the sweep). Optimal-set clause as ARGSET_MAX/MIN normal forms + role table. Numerical optimality NOT decided.",
        note="Trusted: ast, sa/ engines. Assumes action labels of one state are distinct.",
        technique="CFG dominance chain + symbolic arg-set/filter normal forms (ast)", ref="5/C05"),
    "C06": dict(
        text="Exception discipline and known crash/hang shapes: raise census (all ValueError), 'no solution' guard exactly R[0]==0 and flag after the sweep, implicit exception sources "
             "(iterator invalidation, fold-aware definite assignment of arg successors, guarded [0] subscripts, no recursion, division only by surviving mass). "
             "Termination of the two convergence loops is NOT decided (only structural necessary conditions C01.4/C02.3).",
        note="Trusted: ast, sa/ engines. Element domains: rewards >= 0, probabilities in [0,1] and > 0 on transitions.",
        technique="raise census + guard normal form + fold-aware definite assignment + CFG dominance (ast)", ref="5/C06"),
    "C13": dict(
        text="Structural sources of presentation dependence: no iterator invalidation, every successor-list consumer is a commutative fold / arg-set in list order / order-preserving filter (no break, slice, positional access, tolerance-band optimum), "
             "label and index opacity, pruning decisions read only data fixed before the sweep. Float effects of sweep/summation order are NOT decided (within tolerance by the property's wording).",
        note="Trusted: ast, sa/ engines, canaries/opacity.py.",
        technique="fold classification of every successor-list consumer + opacity scan (ast)", ref="5/C13"),
    "C14": dict(
        text="Definitional part: both diagnostics are evaluations along the reported choices (P1 follows arg-max successor of expected rewards; P2 follows arg-min for 'probability under min reward' and MIN over exactly its rounded "
             "reachability-minimising action set for 'reward under min reachability'; probabilistic averages; seeding from reachability for every state; stop rule includes both). Numerical agreement with an independent policy evaluation NOT decided.",
        note="Trusted: ast, sa/ engines. Domain excludes reward ties (property wording).",
        technique="symbolic kernel normal forms with arg-successor tracking (ast)", ref="5/C14"),
})

CLAIMS.update({
    "C08": dict(
        text="Abstract bisimulation for all board sizes at once: the three emitted games, summarised symbolically into blocks of L*W states + 2 tails, are compared with a Roborta rule model for every "
             "case of the exact partition (4 column cases x 3 row cases x 4 arrows x 2 loose) by polynomial identity of target indices, label sets and probability distributions; owners, rewards, "
             "final/absorbing tails; plus an argument-swap rule. Agreement in every case is agreement for every board because board values only pass through the comparisons that induce the partition.",
        note="Trusted: ast, sa/symx.py + sa/genabs.py, the rule model in sa/genabs.py (written from the property statement). Assumes moves in 0..3, loose in 0..1, L x W tables (C15.4/5).",
        technique="abstract interpretation over polynomial index domain + exact case partition; bisimulation against a rule model (ast)", ref="5/C08"),
    "C09": dict(
        text="Validation summarised symbolically and evaluated on one representative per cell of the exact partition the guards induce (type x length x order relative to 0 and n), broken component at every "
             "position, n in {1,2,4}: ill-formed => ValueError, well-formed => accepted, guards never crash; placement before any value iteration; constructors always validate; batch runner catches ValueError, "
             "records the message, and dereferences nothing unvalidated outside the try.",
        note="Trusted: ast, sa/symx.py, sa/guards.py (term evaluator; no repository code executed). Rules outside the documented list are not decided.",
        technique="symbolic guard summaries + exact cell evaluation; CFG dominance for placement (ast)", ref="5/C09"),
    "C11": dict(
        text="Output template parses to exactly game_a/b/c with a comment-only preamble for every board size; replace chain is whitespace-only and cannot hit a string constant; abstract games are well-formed in every case "
             "(equal lengths = total*L*W+2, one non-empty entry per tile, targets in range, typed labels, probabilities in {1,p,1-p} summing to 1, absorbing win/lose, single final); reader evaluates the unmodified text. "
             "'Then solved or reported unsolvable' is NOT decided here (C06/C09; generated games need not be stopping).",
        note="Trusted: ast, sa/genabs.py, ast.parse of the reconstructed template. Manual entry point: positivity of probabilities is the caller's obligation.",
        technique="symbolic output-template reconstruction + abstract game well-formedness (ast)", ref="5/C11"),
    "C12": dict(
        text="run_games summarised symbolically: distinct keys name / name_no_prune by unrolling the literal mode loop; mode reaches the solver; isolation (input-pure solver or per-iteration deep copy; no loop-carried recorded value; "
             "no shared mutable updated in place; solver carries no state, C10.2); failure protocol (flag per game, try/except ValueError, message embeds the error, no early exit, nothing unvalidated dereferenced outside the try); "
             "every record key traced to its slot of solve() and the node field behind it.",
        note="Trusted: ast, sa/symx.py (try/except modelled as a 'raised' alternative at the first call of the body).",
        technique="symbolic loop summaries with unrolling + provenance chains (ast)", ref="5/C12"),
    "C15": dict(
        text="Eight range checks decided exactly by cell evaluation (singly and pairwise), parser types/defaults, validation dominates generation and file creation, values flow under their own names, seeding dominates every draw, "
             "shape L x W, loose flag = [U < p], arrow populations and forced down tile, reward formula normal form (convex combination => reward in [0, max_reward]). Empirical loose-tile frequency NOT decided.",
        note="Trusted: ast, sa/guards.py, sa/symx.py. Assumes random.random() in [0,1).",
        technique="symbolic guard summaries + exact cell evaluation; CFG dominance; expression normal forms (ast)", ref="5/C15"),
    "C16": dict(
        text="Provenance of every report line: label -> hole -> key of the current entry (or equality of the two strategy lists), lossless holes, key sets of writer and run_games agree, one block per entry in insertion order, "
             "path outputs/<cut-at-first-dot(base name(input))>.txt from the same argument that was read, reader evaluates the unmodified text.",
        note="Trusted: ast, sa/symx.py (helpers inlined and judged by content).",
        technique="provenance chains over symbolic write effects (ast)", ref="5/C16"),
    "C17": dict(
        text="prob_to_str reaches str() through a rounding (never truncating) conversion of prob*100 - exact for the property because k/100*100 is within one ulp of k; the file-name templates of main() and "
             "create_sg_from_board() contain every parameter once under its own prefix, '_'-separated, traced to the parsed argument of the same name; argument-swap rule.",
        note="Trusted: ast, sa/symx.py string templates.",
        technique="symbolic string-template extraction + conversion idiom classification (ast)", ref="5/C17"),
})

NOT_YET = {}

ALL = ["C%02d" % i for i in range(1, 18)]


def main():
    checks = []
    na = []
    for pid in ALL:
        have = os.path.exists(os.path.join(HERE, "sa", "rules", pid + ".py"))
        if pid in CLAIMS and have:
            c = CLAIMS[pid]
            checks.append({
                "property_id": pid,
                "quick_cmd": "/venv/bin/python check %s --tier quick" % pid,
                "thorough_cmd": "/venv/bin/python check %s --tier thorough" % pid,
                "evidence_file": "/verif/evidence/%s.json" % pid,
                "replay_cmd_template": "/venv/bin/python check %s --replay {path}" % pid,
                "engine": "ast-static",
                "level_claimed": {"category": "other", "text": c["text"], "design_ref": c["ref"]},
                "level_note": c["note"],
                "technique": c["technique"],
            })
        else:
            na.append({"property_id": pid, "reason": NOT_YET.get(pid, "static check not yet implemented in this revision (see DESIGN.md section 5 for the plan); nothing is claimed")})
    man = {
        "version": 1,
        "setup_cmd": "/venv/bin/python -m compileall -q sa check >/dev/null 2>&1; /venv/bin/python check C07 --quiet >/dev/null; true",
        "hooks": {
            "guard": "CONDREWARDS_VERIF",
            "enable": "none needed: the checks are static and read /repo's working tree; no source hooks exist",
            "baseline_off_cmd": BASELINE,
            "source_commits": [],
            "add_only": True,
        },
        "engines": [
            {"name": "ast-static", "path": "/verif/sa", "serves_properties": [c["property_id"] for c in checks],
             "kind_free_text": "repository-specific static analysis on the Python AST: CHA call graph, CFG/dominators, reaching definitions, "
                               "inclusion points-to + effects, path-merging symbolic executor with fold classification, guard cell evaluation, "
                               "generator abstract interpreter; nothing of /repo is imported or executed"},
        ],
        "checks": checks,
        "not_applicable": na,
        "notes": "exit 0 = all obligations discharged; exit 1 + VIOLATION line = positively identified construct breaks a rule; exit 2 + ANALYSIS-ERROR = cannot decide (never a silent pass). "
                 "Genuine defects found on the pinned tree were repaired by 'fix:' commits in /repo and are listed as fixed in known_findings.txt.",
    }
    with open(os.path.join(HERE, "MANIFEST.json"), "w") as f:
        json.dump(man, f, indent=1)
    print("claimed:", [c["property_id"] for c in checks])
    print("not_applicable:", [x["property_id"] for x in na])


if __name__ == "__main__":
    main()
