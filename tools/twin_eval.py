#!/venv/bin/python
"""Evaluate behaviour-preserving refactorings ("twins"): every check must stay at exit 0.

    tools/twin_eval.py <root> [--install]     (root/<Rx>/<k>/{patch.diff,equiv.py,notes.md})
    tools/twin_eval.py --twins                (re-evaluate /verif/twins/*)

Confirmation per twin: patch applies to a scratch copy of /repo HEAD, the pinned test suite passes, and
equiv.py <clean copy> <patched copy> prints SAME.  Then all checks are run with --repo <patched copy>.
"""
import json
import os
import shutil
import subprocess
import sys
import tempfile
from concurrent.futures import ThreadPoolExecutor

VERIF = os.path.dirname(os.path.dirname(os.path.abspath(__file__)))
PY = "/venv/bin/python"
ALL = ["C%02d" % i for i in range(1, 18)]


def sh(cmd, cwd=None, timeout=1800):
    p = subprocess.run(cmd, cwd=cwd, stdout=subprocess.PIPE, stderr=subprocess.STDOUT, text=True, timeout=timeout)
    return p.returncode, p.stdout


def evaluate(cand, name):
    out = {"id": name, "dir": cand}
    a = tempfile.mkdtemp(prefix="twinA.")
    b = tempfile.mkdtemp(prefix="twinB.")
    try:
        for d in (a, b):
            subprocess.run("git -C /repo archive HEAD | tar -x -C %s" % d, shell=True, check=True)
        sh(["git", "init", "-q", "."], cwd=b)
        rc, o = sh(["git", "apply", os.path.join(cand, "patch.diff")], cwd=b)
        out["applies"] = rc == 0
        if rc != 0:
            out["error"] = o[-300:]
            return out
        rc, o = sh([PY, "-m", "pytest", "-q", "-p", "no:cacheprovider", "-x"], cwd=b)
        out["tests_pass"] = rc == 0 and "57 passed" in o
        eq = os.path.join(cand, "equiv.py")
        eq2 = os.path.join(cand, "equiv_test.py")
        if os.path.exists(eq) and not os.environ.get("SKIP_EQUIV"):
            rc, o = sh([PY, eq, a, b], cwd=tempfile.gettempdir())
            out["equivalent"] = rc == 0 and "SAME" in o
            out["equiv_tail"] = "\n".join(o.strip().splitlines()[-2:])
        elif os.path.exists(eq2) and not os.environ.get("SKIP_EQUIV"):
            # feature-shaped twins: equiv_test.py <patched> <clean> prints PASS
            rc, o = sh([PY, eq2, b, a], cwd=tempfile.gettempdir())
            out["equivalent"] = rc == 0 and "PASS" in o
            out["equiv_tail"] = "\n".join(o.strip().splitlines()[-2:])
        else:
            out["equivalent"] = None
        res = {}
        for c in ALL:
            rc, o = sh([PY, os.path.join(VERIF, "check"), c, "--repo", b, "--quiet"], cwd=VERIF)
            if rc != 0:
                res[c] = {"exit": rc, "lines": [l.strip()[:400] for l in o.splitlines() if l.startswith(("  VIOLATED", "  UNDECIDED", "ANALYSIS-ERROR"))][:6]}
        out["alarms"] = res
    finally:
        shutil.rmtree(a, ignore_errors=True)
        shutil.rmtree(b, ignore_errors=True)
    return out


def main():
    args = sys.argv[1:]
    install = "--install" in args
    args = [x for x in args if x != "--install"]
    cands = []
    if args and args[0] == "--twins":
        root = os.path.join(VERIF, "twins")
        for name in sorted(os.listdir(root)):
            if os.path.exists(os.path.join(root, name, "patch.diff")):
                cands.append((os.path.join(root, name), name))
    else:
        root = args[0]
        for r in sorted(os.listdir(root)):
            if not r.startswith(("R", "C")) or not os.path.isdir(os.path.join(root, r)):
                continue
            for k in sorted(os.listdir(os.path.join(root, r))):
                p = os.path.join(root, r, k)
                if os.path.exists(os.path.join(p, "patch.diff")):
                    cands.append((p, "%s-%s%s" % (("F" + r[1:]) if r.startswith("C") else r, k, os.environ.get("ID_SUFFIX", ""))))
    only = os.environ.get("ONLY")
    if only:
        cands = [c for c in cands if c[1].split("-")[0] in only.split(",") or c[1] in only.split(",")]
    with ThreadPoolExecutor(max_workers=int(os.environ.get("JOBS", "8"))) as ex:
        results = list(ex.map(lambda c: evaluate(*c), cands))
    for r in results:
        ok = r.get("applies") and r.get("tests_pass") and r.get("equivalent") in (True, None)
        print("%-6s applies=%s tests=%s equivalent=%s alarms=%s" % (r["id"], r.get("applies"), r.get("tests_pass"), r.get("equivalent"), sorted(r.get("alarms", {}))))
        for c, a in sorted(r.get("alarms", {}).items()):
            for l in a["lines"][:3]:
                print("        %s exit %d: %s" % (c, a["exit"], l[:260]))
        if install and ok and not any(a["exit"] == 1 for a in r.get("alarms", {}).values()):
            dst = os.path.join(VERIF, "twins", r["id"])
            os.makedirs(dst, exist_ok=True)
            for fn in ("patch.diff", "equiv.py", "equiv_test.py", "notes.md"):
                if os.path.exists(os.path.join(r["dir"], fn)):
                    shutil.copy(os.path.join(r["dir"], fn), os.path.join(dst, fn))
            json.dump({"id": r["id"], "kind": "behaviour-preserving refactoring by an independent sub-agent", "confirmed": ["applies to HEAD", "57 tests pass", "the differential test against the pinned tree reports no difference"],
                       "undecided_at_install": sorted(c for c, a in r.get("alarms", {}).items() if a["exit"] == 2),
                       "alarms_at_install": r.get("alarms", {})}, open(os.path.join(dst, "meta.json"), "w"), indent=1)


if __name__ == "__main__":
    main()
