#!/bin/bash
# usage: tools/try_patch.sh <patch.diff|REV> <Cxx> [Cyy ...]
# Runs checks against a scratch copy of /repo's HEAD with the patch applied (or at git revision REV).
# The scratch copy lives in a mkdtemp directory and is removed before exit; /repo is not touched.
set -u
P="$1"; shift
D=$(mktemp -d /tmp/trypatch.XXXXXX)
trap 'rm -rf "$D"' EXIT
if [ -f "$P" ]; then
  git -C /repo archive HEAD | tar -x -C "$D"
  (cd "$D" && git init -q . && git apply "$P") || { echo "patch does not apply"; exit 3; }
else
  git -C /repo archive "$P" | tar -x -C "$D"
fi
for id in "$@"; do
  /venv/bin/python /verif/check "$id" --repo "$D" --quiet | grep -v "^  ok" ; echo "-- $id exit ${PIPESTATUS[0]}"
done
