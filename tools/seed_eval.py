#!/venv/bin/python
"""Confirm candidate seeded faults and run the checks against them.

    tools/seed_eval.py <candidate-root> [--install]  (candidate-root/<Cxx>/<k>/{patch.diff,demo.py,notes.md})
    tools/seed_eval.py --seeded                      (re-evaluate /verif/seeded/*)

For every candidate: scratch copy of /repo HEAD (mkdtemp, removed afterwards), apply the patch, run the pinned test
suite (must pass), run demo.py against the patched copy (must exit 1) and against /repo (must exit 0); then run every
check that exists with --repo <scratch> and record exit codes.  With --install, confirmed candidates are copied to
/verif/seeded/<Cxx>-<k>/ with a meta.json.
"""
import json
import os
import shutil
import subprocess
import sys
import tempfile
from concurrent.futures import ThreadPoolExecutor

VERIF = os.path.dirname(os.path.dirname(os.path.abspath(__file__)))
PY = "/venv/bin/python"
ALL = ["C%02d" % i for i in range(1, 18)]


def sh(cmd, cwd=None, timeout=600):
    p = subprocess.run(cmd, cwd=cwd, stdout=subprocess.PIPE, stderr=subprocess.STDOUT, text=True, timeout=timeout)
    return p.returncode, p.stdout


def evaluate(cand_dir, pid, k):
    patch = os.path.join(cand_dir, "patch.diff")
    demo = os.path.join(cand_dir, "demo.py")
    out = {"id": "%s-%s%s" % (pid, k, os.environ.get("ID_SUFFIX", "")), "property": pid, "dir": cand_dir}
    d = tempfile.mkdtemp(prefix="seedeval.")
    try:
        subprocess.run("git -C /repo archive HEAD | tar -x -C %s" % d, shell=True, check=True)
        rc, o = sh(["git", "init", "-q", "."], cwd=d)
        rc, o = sh(["git", "apply", patch], cwd=d)
        out["applies"] = rc == 0
        if rc != 0:
            out["error"] = o[-300:]
            return out
        rc, o = sh([PY, "-m", "pytest", "-q", "-p", "no:cacheprovider", "-x"], cwd=d)
        out["tests_pass"] = rc == 0 and "57 passed" in o
        out["tests_tail"] = o.strip().splitlines()[-1] if o.strip() else ""
        rc, o = sh([PY, demo, d], cwd=tempfile.gettempdir(), timeout=900)
        out["demo_fails_with_patch"] = rc != 0
        out["demo_patched_tail"] = "\n".join(o.strip().splitlines()[-3:])
        rc, o = sh([PY, demo, "/repo"], cwd=tempfile.gettempdir(), timeout=900)
        out["demo_passes_clean"] = rc == 0
        out["confirmed"] = bool(out["tests_pass"] and out["demo_fails_with_patch"] and out["demo_passes_clean"])
        res = {}
        for c in ALL:
            if not os.path.exists(os.path.join(VERIF, "sa", "rules", c + ".py")):
                continue
            rc, o = sh([PY, os.path.join(VERIF, "check"), c, "--repo", d, "--quiet"], cwd=VERIF)
            rules = sorted({l.split()[1] for l in o.splitlines() if l.startswith("  VIOLATED")})
            res[c] = {"exit": rc, "rules": rules}
        out["checks"] = res
        out["detected_by"] = sorted(c for c, r in res.items() if r["exit"] == 1)
        out["undecided_by"] = sorted(c for c, r in res.items() if r["exit"] == 2)
    finally:
        shutil.rmtree(d, ignore_errors=True)
    return out


def main():
    args = sys.argv[1:]
    install = "--install" in args
    args = [a for a in args if a != "--install"]
    cands = []
    if args and args[0] == "--seeded":
        root = os.path.join(VERIF, "seeded")
        for name in sorted(os.listdir(root)):
            p = os.path.join(root, name)
            if os.path.exists(os.path.join(p, "patch.diff")):
                pid, k = name.split("-", 1)
                cands.append((p, pid, k))
        os.environ["ID_SUFFIX"] = ""
    else:
        root = args[0]
        for pid in sorted(os.listdir(root)):
            if not pid.startswith("C") or not os.path.isdir(os.path.join(root, pid)):
                continue
            for k in sorted(os.listdir(os.path.join(root, pid))):
                p = os.path.join(root, pid, k)
                if os.path.exists(os.path.join(p, "patch.diff")) and os.path.exists(os.path.join(p, "demo.py")):
                    cands.append((p, pid, k))
    only = os.environ.get("ONLY")
    if only:
        cands = [c for c in cands if c[1] in only.split(",")]
    with ThreadPoolExecutor(max_workers=12) as ex:
        results = list(ex.map(lambda c: evaluate(*c), cands))
    for r in results:
        own = r.get("checks", {}).get(r["property"], {})
        print("%-7s confirmed=%-5s own-check exit=%s rules=%s | detected_by=%s undecided_by=%s" % (
            r["id"], r.get("confirmed"), own.get("exit"), own.get("rules"), r.get("detected_by"), r.get("undecided_by")))
        if not r.get("confirmed"):
            print("        ", {k: r.get(k) for k in ("applies", "tests_pass", "demo_fails_with_patch", "demo_passes_clean", "tests_tail", "error")})
        if install and r.get("confirmed"):
            dst = os.path.join(VERIF, "seeded", r["id"])
            os.makedirs(dst, exist_ok=True)
            for fn in ("patch.diff", "demo.py", "notes.md"):
                if os.path.exists(os.path.join(r["dir"], fn)):
                    shutil.copy(os.path.join(r["dir"], fn), os.path.join(dst, fn))
            notes = open(os.path.join(r["dir"], "notes.md")).read() if os.path.exists(os.path.join(r["dir"], "notes.md")) else ""
            meta = {"id": r["id"], "breaks_property": r["property"], "origin": "independent sub-agent given only the property text and a scratch worktree",
                    "needs_to_manifest": notes.strip()[:1500],
                    "confirmed_by": ["git apply on a scratch copy of /repo HEAD", "pinned test suite: 57 passed with the patch",
                                     "demo.py exits 1 on the patched copy and 0 on /repo"],
                    "detected_by": r["detected_by"], "undecided_by": r["undecided_by"],
                    "checks": r["checks"]}
            json.dump(meta, open(os.path.join(dst, "meta.json"), "w"), indent=1)
    json.dump(results, open(os.path.join(tempfile.gettempdir(), "seed_eval_last.json"), "w"), indent=1)


if __name__ == "__main__":
    main()
