#!/venv/bin/python
"""Re-run every check against every installed twin and seeded fault and bring `undecided_at_install` / `alarms_at_install`
(twins) and `detected_by` / `undecided_by` / `checks` (seeds) in their meta.json up to date with the current rules.
A twin that draws a violation, or a seed whose own property's check exits 0, is printed and left as it is.

    tools/refresh_metas.py [twins|seeded|all]
"""
import json
import os
import shutil
import subprocess
import sys
import tempfile
from concurrent.futures import ThreadPoolExecutor

VERIF = os.path.dirname(os.path.dirname(os.path.abspath(__file__)))
PY = "/venv/bin/python"
ALL = ["C%02d" % i for i in range(1, 18)]
EXCL = ["--exclude=tests/*", "--exclude=inputs/*", "--exclude=outputs/*", "--exclude=*.md"]


def run_checks(patch):
    d = tempfile.mkdtemp(prefix="refresh.")
    try:
        subprocess.run("git -C /repo archive HEAD | tar -x -C %s" % d, shell=True, check=True)
        subprocess.run(["git", "init", "-q", "."], cwd=d, stdout=subprocess.DEVNULL, stderr=subprocess.DEVNULL)
        p = subprocess.run(["git", "apply"] + EXCL + [patch], cwd=d, stdout=subprocess.PIPE, stderr=subprocess.STDOUT, text=True)
        if p.returncode != 0:
            return None
        res = {}
        for c in ALL:
            q = subprocess.run([PY, os.path.join(VERIF, "check"), c, "--repo", d, "--quiet"], cwd=VERIF, stdout=subprocess.PIPE, stderr=subprocess.STDOUT, text=True)
            rules = sorted({l.split()[1] for l in q.stdout.splitlines() if l.startswith("  VIOLATED")})
            res[c] = {"exit": q.returncode, "rules": rules,
                      "lines": [l.strip()[:400] for l in q.stdout.splitlines() if l.startswith(("  VIOLATED", "  UNDECIDED", "ANALYSIS-ERROR"))][:6]}
        return res
    finally:
        shutil.rmtree(d, ignore_errors=True)


def twin(name):
    root = os.path.join(VERIF, "twins", name)
    res = run_checks(os.path.join(root, "patch.diff"))
    if res is None:
        return "%s: patch does not apply" % name
    bad = [c for c, r in res.items() if r["exit"] == 1]
    if bad:
        return "%s: VIOLATION in %s - meta left as it is" % (name, bad)
    mp = os.path.join(root, "meta.json")
    meta = json.load(open(mp)) if os.path.exists(mp) else {"id": name}
    und = sorted(c for c, r in res.items() if r["exit"] == 2)
    if meta.get("undecided_at_install") != und:
        meta["undecided_at_install"] = und
        meta["alarms_at_install"] = {c: {"exit": r["exit"], "lines": r["lines"]} for c, r in res.items() if r["exit"] != 0}
        json.dump(meta, open(mp, "w"), indent=1)
        return "%s: undecided now %s" % (name, und)
    return None


def seed(name):
    root = os.path.join(VERIF, "seeded", name)
    res = run_checks(os.path.join(root, "patch.diff"))
    if res is None:
        return "%s: patch does not apply" % name
    mp = os.path.join(root, "meta.json")
    meta = json.load(open(mp))
    own = meta["breaks_property"]
    if res[own]["exit"] == 0:
        return "%s: own check %s exits 0 - meta left as it is" % (name, own)
    det = sorted(c for c, r in res.items() if r["exit"] == 1)
    und = sorted(c for c, r in res.items() if r["exit"] == 2)
    new_checks = {c: {"exit": r["exit"], "rules": r["rules"]} for c, r in res.items()}
    if meta.get("detected_by") != det or meta.get("undecided_by") != und or meta.get("checks") != new_checks:
        was = (meta.get("detected_by"), meta.get("undecided_by"))
        meta["detected_by"], meta["undecided_by"], meta["checks"] = det, und, new_checks
        json.dump(meta, open(mp, "w"), indent=1)
        if was != (det, und):
            return "%s: detected_by %s -> %s, undecided_by %s -> %s" % (name, was[0], det, was[1], und)
    return None


def main():
    what = sys.argv[1] if len(sys.argv) > 1 else "all"
    jobs = []
    if what in ("twins", "all"):
        jobs += [(twin, n) for n in sorted(os.listdir(os.path.join(VERIF, "twins"))) if os.path.exists(os.path.join(VERIF, "twins", n, "patch.diff"))]
    if what in ("seeded", "all"):
        jobs += [(seed, n) for n in sorted(os.listdir(os.path.join(VERIF, "seeded"))) if os.path.exists(os.path.join(VERIF, "seeded", n, "meta.json"))]
    with ThreadPoolExecutor(max_workers=int(os.environ.get("JOBS", "12"))) as ex:
        for msg in ex.map(lambda j: j[0](j[1]), jobs):
            if msg:
                print(msg)
    print("done: %d entries" % len(jobs))


if __name__ == "__main__":
    main()
