"""Seeded-fault catalogue and refactor twins for self-validation of the checkers (thorough tier).

An entry edits ONE located function of a scratch copy of the *current* tree: the function is found by qualified name
through the ast (never by line number) and a textual replacement is applied inside its source segment; the old text must
occur exactly once there, otherwise the entry is 'not applicable' on this tree (recorded, never counted as a miss).

    M(property, file, qualified function, old, new, expected rule prefix, description)   must make the check exit 1
    T(properties, file, qualified function, old, new, description)                        must leave the checks at exit 0
"""

MUTANTS = []
TWINS = []


def M(pid, file, func, old, new, rule, desc):
    MUTANTS.append(dict(kind="mutant", pid=pid, file=file, func=func, old=old, new=new, rule=rule, desc=desc))


def T(pids, file, func, old, new, desc, all=False):
    TWINS.append(dict(kind="twin", pids=pids, file=file, func=func, old=old, new=new, desc=desc, all=all))


TAD, RDFS, CR, GEN = "tad.py", "reverse_dfs.py", "conditionalrewards.py", "roberta_generator.py"

# ---- C01 -------------------------------------------------------------------------------------------------------------
M("C01", TAD, "PlayerOne.value_iteration_reach", "if next_state_reach_prob > max_reach_prob:", "if next_state_reach_prob < max_reach_prob:", "C01.1", "Player 1 takes the minimum")
M("C01", TAD, "PlayerTwo.value_iteration_reach", "min_reach_prob = 1\n", "min_reach_prob = 0.5\n", "C01.1", "Player 2 minimum seeded with 0.5")
M("C01", TAD, "ProbabilisticNode.value_iteration_reach", "for next_state in self.next_states:", "for next_state in self.next_states[:1]:", "C01.1", "average over the first successor only")
M("C01", TAD, "Node.__init__", "self.reach_probability = 1 if is_final_node else 0", "self.reach_probability = 0.0001 if not is_final_node else 1", "C01.2", "iteration does not start from 0")
M("C01", TAD, "Solver.value_iteration_reachability", "while diff > self.threshold:", "while diff > self.threshold and i < 1000:", "C01.4", "iteration cap on the reachability sweep")
M("C01", TAD, "Solver.value_iteration_reachability", "diff = max_diff", "diff = current_diff", "C01.4", "change measure is the last state's change")
M("C01", TAD, "Solver.value_iteration_reachability", "max_diff = 0\n", "pass\n", "C01.4", "maximum not reset per sweep")
M("C01", TAD, "Solver.solve_reachability", "self.value_iteration_reachability(states_reaching_final, prune_states)", "self.value_iteration_reachability(states_reaching_final[1:], prune_states)", "C01.3", "sweep domain truncated")
M("C01", TAD, "Solver.value_iteration_reachability", "state.reach_probability = reach_probability_next", "state.reach_probability = reach_probability_next if prune_states else state.reach_probability", "C01", "update depends on the prune flag")
M("C01", TAD, "StochasticGame.solve", "probabilities = [state.reach_probability for state in state_list]", "probabilities = [round(state.reach_probability, 3) for state in state_list]", "C01.6", "reported probabilities rounded to 3 digits")
M("C01", TAD, "Solver.value_iteration_reachability", "for state_idx in states_reaching_final:", "for state_idx in states_reaching_final[::2]:", "C01.4", "every second state swept")
M("C01", TAD, "PlayerTwo.value_iteration_reach", "min_reach_prob = 1\n", "min_reach_prob = self.reach_probability\n", "C01.1", "minimum seeded with the state's own old value (stuck at 0)")
T(["C01", "C06", "C04"], TAD, "Solver.value_iteration_reachability", "for state_idx in states_reaching_final:", "for state_idx in reversed(states_reaching_final):", "sweep order reversed")
T(["C01", "C06"], TAD, "PlayerOne.value_iteration_reach", "max_reach_prob = 0\n", "max_reach_prob = self.reach_probability\n", "maximum seeded with the state's own old value (same limit)")
T(["C01", "C02", "C14"], TAD, "StochasticGame.solve", "probabilities = [state.reach_probability for state in state_list]", "probabilities = []\n        for state in state_list:\n            probabilities.append(state.reach_probability)", "append loop instead of comprehension for a result slot")
T(["C02", "C06", "C14"], TAD, "Solver.value_iteration_total_rewards", "for state in self.state_list:\n                expected_rewards_next", "for state in reversed(self.state_list):\n                expected_rewards_next", "reward sweep reversed")
# ---- C02 -------------------------------------------------------------------------------------------------------------
M("C02", TAD, "PlayerOne.value_iteration_rewards", "max_rewards += self.reward", "max_rewards += 0", "C02.2", "Player 1 drops its own reward")
M("C02", TAD, "ProbabilisticNode.value_iteration_rewards", "return 0, 0, 0", "return self.reward, 0, 0", "C02.2", "pruned-away probabilistic state worth its reward")
M("C02", TAD, "PlayerTwo.value_iteration_rewards", "if next_state_exp_rewards <= min_rewards:", "if next_state_exp_rewards >= min_rewards:", "C02.2", "Player 2 maximises expected rewards")
M("C02", TAD, "StochasticGame.solve", "        solver.prune_reachability(reachability_strategies)\n", "        if self.prune_states:\n            solver.prune_reachability(reachability_strategies)\n", "C02.1", "restriction made conditional on the flag")
M("C02", TAD, "Solver.value_iteration_total_rewards", "state.expected_rewards_min_reach = expected_rewards_min_reach", "state.expected_rewards_min_reach = expected_reach_min_rewards", "C02.3", "slot swap on store")
M("C02", TAD, "Solver.value_iteration_total_rewards", "current_diff = max(current_diff_expected_rew, current_diff_min_reach, current_diff_reach)", "current_diff = max(current_diff_expected_rew, current_diff_min_reach)", "C02.3", "one quantity missing from the stop rule")
M("C02", TAD, "Solver.prune_reachability", "state.prune_paths_reachability(reachability_strategies[idx])", "state.prune_paths_reachability(reachability_strategies[0])", "C02.4", "every state restricted by state 0's strategies")
# ---- C03 -------------------------------------------------------------------------------------------------------------
M("C03", TAD, "PlayerOne.prune_paths", ".reach_probability != 0]", ".reach_probability > 0.5]", "C03.2", "survivor test loosened to > 0.5")
M("C03", TAD, "ProbabilisticNode.prune_paths", "for _next_state in surviving_states)", "for _next_state in self.next_states)", "C03.3", "denominator is the total mass")
M("C03", TAD, "ProbabilisticNode.prune_paths", "(_next_state[PROBABILITY] / surviving_probability, _next_state[NEXT_STATE_IDX])", "(_next_state[PROBABILITY], _next_state[NEXT_STATE_IDX])", "C03.3", "no rescaling")
M("C03", TAD, "Solver.prune_paths", "if state.player in [PLAYER_1, PROBABILISTIC]:", "if state.player in [PLAYER_1]:", "C03.5", "probabilistic states not pruned")
M("C03", TAD, "Solver.prune_states", "reachable_states = [0]", "reachable_states = []", "C03.4", "initial state not protected")
M("C03", TAD, "PlayerOne.prune_paths", "        self.next_states = [\n            _next_state for _next_state in self.next_states\n            if state_list[_next_state[NEXT_STATE_IDX]].reach_probability != 0]",
  "        for _next_state in self.next_states:\n            if state_list[_next_state[NEXT_STATE_IDX]].reach_probability == 0:\n                self.remove_path(_next_state)", "C03.1", "in-place removal while iterating re-introduced")
# ---- C04 -------------------------------------------------------------------------------------------------------------
M("C04", TAD, "PlayerOne.get_best_strategies_reachability", "next_state_reach_probability = round(\n                state_list[next_state_idx].reach_probability, floor)", "next_state_reach_probability = state_list[next_state_idx].reach_probability", "C04.1", "rounding removed")
M("C04", TAD, "Solver.__init__", "self.floor = abs(math.floor(math.log(threshold, 10)))", "self.floor = 1", "C04.2", "precision constant 1")
M("C04", TAD, "PlayerTwo.get_worst_strategies_reachability", "            elif next_state_reach_probability == min_reach_prob:\n                worst_strategies.append(action)\n", "", "C04.1", "tie branch dropped")
M("C04", TAD, "PlayerTwo.get_worst_strategies_reachability", "if next_state_reach_probability < min_reach_prob:", "if next_state_reach_probability > min_reach_prob:", "C04.1", "Player 2 lists maximising actions")
M("C04", TAD, "Solver._get_reachability_strategies", "elif state.player == PLAYER_2:", "elif state.player == PROBABILISTIC:", "C04.3", "role table: probabilistic instead of Player 2")
# ---- C05 -------------------------------------------------------------------------------------------------------------
M("C05", TAD, "PlayerOne.prune_paths_reachability", "if action in best_strategies]", "if action in best_strategies[:1]]", "C05.1", "restriction by the first best action only")
M("C05", TAD, "PlayerOne.get_best_strategies_total_rewards", "round(state_list[next_state_idx].expected_rewards, floor)", "round(state_list[next_state_idx].reach_probability, floor)", "C05.2", "wrong field")
M("C05", TAD, "Solver.solve_total_rewards", "        n_iterations_rew = self.value_iteration_total_rewards()\n        total_rewards_strategies = self._get_total_rewards_strategies()\n",
  "        total_rewards_strategies = self._get_total_rewards_strategies()\n        n_iterations_rew = self.value_iteration_total_rewards()\n", "C05.1", "strategies extracted before the sweep")
# ---- C06 -------------------------------------------------------------------------------------------------------------
M("C06", TAD, "PlayerOne.value_iteration_rewards", "if next_state_exp_rewards >= max_rewards:", "if next_state_exp_rewards > max_rewards:", "C06.3a", "strict comparison leaves the arg successor unbound")
M("C06", TAD, "Solver.value_iteration_reachability", "if self.state_list[0].reach_probability == 0 and prune_states:", "if self.state_list[0].reach_probability == 0 or prune_states:", "C06.2", "no-solution guard with or")
M("C06", TAD, "Solver.solve_reachability", 'raise ValueError("There must be at least one final state to solve reachability.")', 'raise KeyError("There must be at least one final state to solve reachability.")', "C06.1", "KeyError raised")
M("C06", TAD, "PlayerTwo.get_worst_strategies_total_rewards", "        if len(self.next_states) == 0:\n            return []\n", "", "C06.3b", "emptiness test removed before next_states[0]")
M("C06", TAD, "Solver.prune_states", "finished = set(not_reachable_states_new) == set(not_reachable_states)", "finished = set(not_reachable_states_new) == set(reachable_states)", "C06.4", "fixed-point test compares the wrong sets (may never terminate)")
# ---- C07 -------------------------------------------------------------------------------------------------------------
M("C07", RDFS, "reverse_dfs", "for final_state in final_states:", "for final_state in final_states[:1]:", "C07.2", "search from the first final state only")
M("C07", RDFS, "add_missing_states", "for state in range(number_of_states):", "for state in range(number_of_states - 1):", "C07.6", "last state has no table entry")
M("C07", RDFS, "reverse_dfs", "    states_reaching_final.sort()\n", "", "C07.4", "result not sorted")
M("C07", RDFS, "reverse_dfs", "[state for state in visited_states if state not in final_states]", "[state for state in visited_states]", "C07.4", "final states not filtered")
M("C07", RDFS, "reverse_transition_list_core", "reversed_transition_list.append((next_state, current_state))", "reversed_transition_list.append((current_state, next_state))", "C07.6", "pair components exchanged")
M("C07", RDFS, "reverse_dfs_from", "                pending_states.append(previous_state)\n", "                pending_states.append(previous_state)\n                break\n", "C07.5", "break after the first predecessor")
# ---- C08 -------------------------------------------------------------------------------------------------------------
M("C08", GEN, "player_one_down_transitions", "elif i < length - 1:", "elif i < length:", "C08.1", "last row moves down into a tile")
M("C08", GEN, "player_one_left_right_transitions", "(j - 1) % width", "j % width", "C08.1", "Left stays in place")
M("C08", GEN, "prob_tile_break_transitions", "transition.append((prob_tile_break, loosing_state))\n                transition.append((1 - prob_tile_break, offset + i * width + j))",
  "transition.append((1 - prob_tile_break, loosing_state))\n                transition.append((prob_tile_break, offset + i * width + j))", "C08.1", "p and 1-p exchanged")
M("C08", GEN, "write_robot_A", "my_final_states = [winning_state]", "my_final_states = [loosing_state]", "C08.2", "final state is the losing state")
M("C08", GEN, "prob_tile_break_transitions", "if loose_tiles[i][j] == 1:", "if loose_tiles[i][j] == 0:", "C08.1", "loose test inverted")
M("C08", GEN, "write_robot_B", "offset_l=(robot_left_break*n_tiles),\n        offset_r=(robot_right_break*n_tiles))", "offset_l=(robot_right_break*n_tiles),\n        offset_r=(robot_left_break*n_tiles))", "C08.1", "left/right break groups exchanged")
M("C08", GEN, "player_two_transitions", "if moves[i][j] == 3:", "if moves[i][j] == 2:", "C08.1", "Yellow offered on down-only tiles")
# ---- C09 -------------------------------------------------------------------------------------------------------------
M("C09", TAD, "Node.check_next_states", "next_state[NEXT_STATE_IDX] >= self.num_states:", "next_state[NEXT_STATE_IDX] > self.num_states:", "C09.1", "successor index n accepted")
M("C09", TAD, "Node.check_next_states", "if next_state[NEXT_STATE_IDX] < 0 or next_state[NEXT_STATE_IDX] >= self.num_states:", "if next_state[NEXT_STATE_IDX] >= self.num_states:", "C09.1", "negative successor accepted")
M("C09", TAD, "StochasticGame.check_game", "if min(self.rewards) < 0:", "if self.rewards[0] < 0:", "C09.1", "only the first reward is checked")
M("C09", TAD, "Node.check_next_states", "for next_state in self.next_states:", "for next_state in self.next_states[:1]:", "C09.1", "only the first transition is checked")
M("C09", CR, "run_games", "except ValueError as e:", "except KeyError as e:", "C09.5", "handler catches KeyError")
M("C09", TAD, "Node.__init__", "        self.check_next_states()\n", "        if idx == 0:\n            self.check_next_states()\n", "C09.4", "only state 0 is validated")
M("C09", TAD, "Node.check_next_states", 'raise ValueError("The next state must be an int.")', 'raise TypeError("The next state must be an int.")', "C09", "TypeError raised")
# ---- C10 -------------------------------------------------------------------------------------------------------------
M("C10", TAD, "StochasticGame.solve", "        self.check_game()\n", "        self.check_game()\n        self.final_states.sort()\n", "C10.1", "caller's final_states sorted in place")
M("C10", TAD, "StochasticGame.solve", "        logging.info(\"Done!\")\n", "        logging.info(\"Done!\")\n        self.prune_states = False\n", "C10.2", "the mode is switched off on the game object after the first solve")
T(["C10", "C12"], TAD, "StochasticGame.solve", "        state_list = self.init_states()\n", "        state_list = self.init_states()\n        self.last_nodes = state_list\n", "write-only attribute kept on the game object (nothing reads it)")
M("C10", TAD, "PlayerOne.prune_paths", "        self.next_states = [\n            _next_state for _next_state in self.next_states\n            if state_list[_next_state[NEXT_STATE_IDX]].reach_probability != 0]",
  "        for _next_state in list(self.next_states):\n            if state_list[_next_state[NEXT_STATE_IDX]].reach_probability == 0:\n                self.remove_path(_next_state)", None, "in-place removal over a snapshot: the private copy protects the input (must stay silent for C10)")
M("C10", TAD, "StochasticGame.solve", "        self.check_game()\n", "        self.check_game()\n        list.sort(self.final_states)\n", "C10.1", "caller's final_states sorted through the unbound list.sort")
# ---- C11 -------------------------------------------------------------------------------------------------------------
M("C11", GEN, "write_robot_A", 'my_file.write(",\\n")', 'my_file.write("\\n")', "C11.1", "comma between games dropped")
M("C11", GEN, "write_robot_B", "my_file.write(\" 'game_b': \")", "my_file.write(\" 'game_a': \")", "C11.1", "game_a written twice")
M("C11", GEN, "write_robot_C", '.replace("], ", "],\\n")', '.replace("], ", "]\\n")', "C11.2", "replace eats a comma")
M("C11", GEN, "write_robot_B", "[0] * n_tiles * (total-1)", "[0] * n_tiles * total", "C11.3", "rewards list too long")
M("C11", GEN, "prob_light_break_transitions", "transition.append((1 - prob_light_break, offset_ok + i * width + j))", "transition.append((prob_light_break, offset_ok + i * width + j))", "C11.3", "probabilities do not sum to 1")
M("C11", CR, "read_dict_from_file", "dictionary = eval(contents)", "dictionary = eval(contents.lower())", "C11.4", "reader lowers the text")
M("C11", GEN, "write_robot_C", '["Player 1" for i in range(n_tiles*n_robot_groups)]', '["Player1" for i in range(n_tiles*n_robot_groups)]', "C11.6", "owner name the solver does not know")
M("C11", GEN, "write_robot_A", '"final_states": my_final_states', '"final": my_final_states', "C11.6", "game key renamed")
# ---- C12 -------------------------------------------------------------------------------------------------------------
M("C12", CR, "run_games", "for prune_states in [True, False]:", "for prune_states in [False, True]:", "C12.1", "modes reversed: both entries under one key")
M("C12", CR, "run_games", 'name = name if prune_states else name + "_no_prune"', "name = name", "C12.1", "suffix dropped")
M("C12", CR, "run_games", "        prev_game_had_solution = True\n        for prune_states in [True, False]:", "        for prune_states in [True, False]:", "C12.3", "flag never re-set (hoist simulated by deletion)")
M("C12", CR, "run_games", "final_strategies, reachability_strategies, rewards, probabilities, iterations_reach", "final_strategies, reachability_strategies, probabilities, rewards, iterations_reach", "C12.5", "two slots exchanged in the unpacking")
M("C12", CR, "run_games", "            reachability_strategies = None\n            final_strategies = None\n            rewards = None\n", "            reachability_strategies = None\n            final_strategies = None\n", "C12.3", "default of rewards not re-established per mode")
M("C12", CR, "run_games", '                    prev_game_had_solution = False\n', '                    prev_game_had_solution = False\n                    break\n', "C12", "break on failure")
# ---- C13 -------------------------------------------------------------------------------------------------------------
M("C13", TAD, "PlayerOne.value_iteration_reach", "            if next_state_reach_prob > max_reach_prob:\n                max_reach_prob = next_state_reach_prob\n", "            if next_state_reach_prob > max_reach_prob:\n                max_reach_prob = next_state_reach_prob\n                break\n", "C13.2", "first improving successor wins")
M("C13", TAD, "PlayerOne.prune_paths_reachability", "if action in best_strategies]", 'if action in best_strategies or action == "Down"]', "C13.3", "action name literal")
M("C13", TAD, "PlayerTwo.value_iteration_reach", "if next_state_reach_prob < min_reach_prob:", "if next_state_reach_prob < min_reach_prob and next_state[NEXT_STATE_IDX] > 0:", "C13.4", "successor index ordered")
# ---- C14 -------------------------------------------------------------------------------------------------------------
M("C14", TAD, "PlayerTwo.value_iteration_rewards", "self.get_worst_strategies_reachability(state_list, 6)", "self.get_worst_strategies_reachability(state_list, 0)", "C14.2", "digits 0")
M("C14", TAD, "PlayerTwo._expected_rewards_min_reach", "if next_state_exp_rewards < min_rewards:", "if next_state_exp_rewards > min_rewards:", "C14.1", "max instead of min over restricted actions")
M("C14", TAD, "Solver.value_iteration_reachability", "state.expected_reach_min_rewards = state.reach_probability", "state.expected_reach_min_rewards = state.expected_rewards", "C14.3", "seeding from expected rewards")
M("C14", TAD, "PlayerOne.value_iteration_rewards", "state_list[max_next_state[NEXT_STATE_IDX]].expected_reach_min_rewards", "state_list[self.next_states[0][NEXT_STATE_IDX]].expected_reach_min_rewards", "C14.1", "auxiliary value from the first successor")
M("C14", TAD, "StochasticGame.solve", "expected_reach_min_rewards = [state.expected_reach_min_rewards for state in state_list]", "expected_reach_min_rewards = [state.reach_probability for state in state_list]", "C14.5", "diagnostic slot reports plain reachability")
M("C14", TAD, "StochasticGame.solve", "n_iterations_rew, expected_reach_min_rewards, expected_rewards_min_reach", "n_iterations_rew, expected_rewards_min_reach, expected_reach_min_rewards", "C14.5", "diagnostic slots swapped in the return")
# ---- C15 -------------------------------------------------------------------------------------------------------------
M("C15", GEN, "check_input", "if seed < 0:", "if seed <= 0:", "C15.1", "seed 0 refused")
M("C15", GEN, "check_input", "if prob_tile_break <= 0 or prob_tile_break >= 1:", "if prob_tile_break < 0 or prob_tile_break >= 1:", "C15.1", "probability 0 accepted")
M("C15", GEN, "gen_rnd_board", "random.seed(seed)", "random.seed()", "C15.3", "seeded from system entropy")
M("C15", GEN, "gen_rnd_board", "        for _ in range(width):", "        for _ in range(length):", "C15.4", "rows have `length` columns")
M("C15", GEN, "gen_rnd_board", "1 if random.random() < prob_loose_tile else 0", "1 if random.random() > prob_loose_tile else 0", "C15.5", "loose test inverted")
M("C15", GEN, "get_random_moves", "random.choices([0, 1, 2], [0.2, 0.6, 0.2], k=width)", "random.choices([0, 1, 2, 3], [0.2, 0.5, 0.2, 0.1], k=width)", "C15.5", "down-only tiles without force_down")
M("C15", GEN, "main", "    check_input(seed, width, length, prob_robot_break, prob_light_break, prob_loose_tile,\n                prob_tile_break, max_reward)\n\n    moves, rewards, loose_tiles = gen_rnd_board(\n        seed, length, width, prob_loose_tile, max_reward, force_down)\n",
  "    moves, rewards, loose_tiles = gen_rnd_board(\n        seed, length, width, prob_loose_tile, max_reward, force_down)\n\n    check_input(seed, width, length, prob_robot_break, prob_light_break, prob_loose_tile,\n                prob_tile_break, max_reward)\n", "C15.2", "board generated before validation")
# ---- C16 -------------------------------------------------------------------------------------------------------------
M("C16", CR, "save_results_to_file", "{game['probabilities']}", "{game['prob_min_rew']}", "C16.1", "wrong key under the Probabilities label")
M("C16", CR, "save_results_to_file", "{game['rewards']}\\n", "{game['rewards']:.4}\\n", "C16.2", "format spec on rewards")
M("C16", CR, "save_results_to_file", "for name, game in game_resuts.items():", "for name, game in sorted(game_resuts.items()):", "C16.4", "entries sorted")
M("C16", CR, "save_results_to_file", '            file.write(f"Message                 : {game[\'msg\']}\\n")\n', "", "C16.1", "Message line dropped")
M("C16", CR, "main", "save_results_to_file(game_results, parsed_args.file)", "save_results_to_file(game_results, parsed_args.log_level)", "C16.4", "report named after another argument")
# ---- C17 -------------------------------------------------------------------------------------------------------------
M("C17", GEN, "prob_to_str", "return str(round(prob*100))", "return str(int(prob*100))", "C17.1", "truncation restored")
M("C17", GEN, "prob_to_str", "return str(round(prob*100))", "return str(math.floor(prob*100))", "C17.1", "floor")
M("C17", GEN, "main", '"rb" + prob_to_str(prob_robot_break)', '"rb" + prob_to_str(prob_light_break)', "C17.2", "rb shows the light probability")
M("C17", GEN, "main", '"l" + str(length) + "_" + \\\n', "", "C17.2", "length dropped from the name")

# ---- refactor twins (must stay silent) -----------------------------------------------------------------------------------------
T(["C01", "C13", "C06"], TAD, "PlayerOne.value_iteration_reach",
  "        max_reach_prob = 0\n        for _, next_state_idx in self.next_states:\n            next_state_reach_prob = state_list[next_state_idx].reach_probability\n            if next_state_reach_prob > max_reach_prob:\n                max_reach_prob = next_state_reach_prob\n        return max_reach_prob",
  "        return max((state_list[next_state_idx].reach_probability for _, next_state_idx in self.next_states), default=0)", "explicit max loop -> max(..., default=0)")
T(["C01", "C13", "C03"], TAD, "ProbabilisticNode.value_iteration_reach",
  "        value = 0\n        for next_state in self.next_states:\n            _next_state = state_list[next_state[NEXT_STATE_IDX]]\n            value += _next_state.reach_probability * next_state[PROBABILITY]\n        return value",
  "        return sum(probability * state_list[target].reach_probability for probability, target in self.next_states)", "accumulate loop -> sum() with tuple unpacking")
T(["C07", "C01", "C06"], RDFS, "reverse_dfs_from", "if previous_state not in visited_states:", "if previous_state not in visited_states and previous_state != current_state:", "extra self-loop test in the DFS guard")
T(["C09"], TAD, "Node.check_next_states", "if next_state[NEXT_STATE_IDX] < 0 or next_state[NEXT_STATE_IDX] >= self.num_states:", "if not (0 <= next_state[NEXT_STATE_IDX] < self.num_states):", "range guard in chained-comparison form")
T(["C12", "C10"], CR, "run_games", "game_copy = copy.deepcopy(game)", "game_copy = dict(game)", "deep copy replaced by a shallow one (the solver is input-pure)")
T(["C15", "C11"], GEN, "check_input", "if prob_robot_break <= 0 or prob_robot_break >= 1:", "if not 0 < prob_robot_break < 1:", "open-interval guard in chained form")
T(["C17"], GEN, "prob_to_str", "return str(round(prob*100))", 'return f"{prob*100:.0f}"', "rounding by format spec")
T(["C02", "C14", "C13"], TAD, "ProbabilisticNode.value_iteration_rewards",
  "        for next_state in self.next_states:\n            _next_state = state_list[next_state[NEXT_STATE_IDX]]\n            value += _next_state.expected_rewards * next_state[PROBABILITY]\n            expected_rewards_min_reach += _next_state.expected_rewards_min_reach * next_state[PROBABILITY]\n            expected_reach_min_rewards += _next_state.expected_reach_min_rewards * next_state[PROBABILITY]",
  "        for probability, target in self.next_states:\n            successor = state_list[target]\n            value += probability * successor.expected_rewards\n            expected_rewards_min_reach += probability * successor.expected_rewards_min_reach\n            expected_reach_min_rewards += probability * successor.expected_reach_min_rewards",
  "tuple unpacking + renamed locals + commuted products")
T(["C04", "C13"], TAD, "PlayerOne.get_best_strategies_reachability", "max_probability", "best_value", "local renamed", all=True)
T(["C07"], RDFS, "reverse_dfs", "    states_reaching_final = [state for state in visited_states if state not in final_states]\n    states_reaching_final.sort()\n    return states_reaching_final",
  "    return sorted(state for state in visited_states if state not in final_states)", "filter + sort -> sorted(generator)")
T(["C03", "C02", "C13"], TAD, "PlayerOne.prune_paths", "_next_state for _next_state in self.next_states\n            if state_list[_next_state[NEXT_STATE_IDX]].reach_probability != 0]",
  "(action, target) for action, target in self.next_states\n            if state_list[target].reach_probability != 0]", "tuple unpacking in the survivor filter")
T(["C16"], CR, "save_results_to_file", 'file.write(f"Message                 : {game[\'msg\']}\\n")', 'message = game["msg"]\n            file.write(f"Message                 : {message}\\n")', "value through a local")

# ---- benign edits of other kinds ---------------------------------------------------------------------------------------------
T(["C01", "C13", "C06", "C10"], TAD, "PlayerOne.value_iteration_reach", "            next_state_reach_prob = state_list[next_state_idx].reach_probability\n",
  "            next_state_reach_prob = state_list[next_state_idx].reach_probability\n            logging.debug(f\"successor {next_state_idx}: {next_state_reach_prob}\")\n", "debug logging inside a kernel loop")
T(["C01", "C02", "C13"], TAD, "PlayerTwo.value_iteration_reach", "def value_iteration_reach(self, state_list):", "def value_iteration_reach(self, state_list: list) -> float:", "type annotations on a kernel")
T(["C02", "C05", "C06", "C09", "C10"], TAD, "StochasticGame.solve", '        logging.info("Initializing stochastic game ...")\n', '        logging.info("Initializing stochastic game ...")\n        logging.debug("number of states: %d", self.num_states)\n', "extra logging in solve()")
T(["C09"], TAD, "StochasticGame.check_game", "if len(self.rewards) != self.num_states:", "if not len(self.rewards) == self.num_states:", "length guard written with not ==")
T(["C07", "C01"], RDFS, "add_missing_states", "for state in range(number_of_states):\n        if state not in transition_dict:\n            transition_dict[state] = []", "for state in range(number_of_states):\n        transition_dict.setdefault(state, [])" if False else "for state in range(0, number_of_states):\n        if state not in transition_dict:\n            transition_dict[state] = []", "range(0, n)")
T(["C12", "C16"], CR, "run_games", '            logging.info(f"Running example: {name}")\n', '            logging.info("Running example: %s", name)\n', "lazy logging arguments")
T(["C03", "C02", "C14"], TAD, "ProbabilisticNode.prune_paths", "        if len(surviving_states) == len(self.next_states):\n            return\n", "        if len(surviving_states) >= len(self.next_states):\n            return\n" if False else "        if len(self.next_states) == len(surviving_states):\n            return\n", "operands of the length test exchanged")
T(["C04", "C14", "C05"], TAD, "Solver.__init__", "self.floor = abs(math.floor(math.log(threshold, 10)))", "self.floor = abs(int(math.floor(math.log10(threshold))))", "log10 instead of log(x, 10)")
T(["C15", "C11"], GEN, "check_input", 'if max_reward <= 0:', 'if max_reward < 1:', "integer guard `< 1` for `<= 0`")

# ---- found by tools/mut_fuzz.py (systematic single-site mutation; these passed the tests and every check at first) ------------
SG = "stochastic_game_from_roborta_board.py"
M("C04", TAD, "PlayerTwo.get_worst_strategies_reachability", "                min_reach_prob = next_state_reach_probability\n", "                pass\n", "C04.1", "running minimum never updated")
M("C04", TAD, "PlayerTwo.get_worst_strategies_reachability", "elif next_state_reach_probability == min_reach_prob:", "elif not (next_state_reach_probability == min_reach_prob):", "C04.1", "tie branch negated")
M("C05", TAD, "PlayerTwo.get_worst_strategies_total_rewards", "                worst_strategies = [action]\n", "                pass\n", "C05.2", "list not reset on a better value")
M("C14", TAD, "PlayerTwo._expected_rewards_min_reach", "                    min_rewards = next_state_exp_rewards\n", "                    pass\n", "C14.1", "diagnostic minimum never updated")
M("C16", CR, "save_results_to_file", 'file_name.split("/")[-1].split(".")[0]', 'file_name.split("/")[-1].split(".")[1]', "C16.4", "report named after the second dotted component")
M("C16", CR, "save_results_to_file", 'file_name.split("/")[-1].split(".")[0]', 'file_name.split("/")[-2].split(".")[0]', "C16.4", "report named after the directory")
M("C11", GEN, "write_robots", 'open(file_name, "w")', 'open("w", file_name)', "C11.1", "open arguments swapped")
M("C17", SG, "create_sg_from_board", "force_down = (max_move+1) == 4", "force_down = (max_move+1) != 4", "C17.2", "manual force_down suffix inverted")
M("C17", SG, "create_sg_from_board", "force_down = (max_move+1) == 4", "force_down = (max_move+1) == 3", "C17.2", "manual force_down suffix for arrow code 2")
T(["C17"], SG, "create_sg_from_board", "force_down = (max_move+1) == 4", "force_down = max_move >= 3", "equivalent force_down test")
M("C01", TAD, "StochasticGame.solve", "probabilities = [state.reach_probability for state in state_list]", "probabilities = [state.expected_reach_min_rewards for state in state_list]", "C01.6", "probabilities slot reads another field")
# ---- found by tools/equiv_fuzz.py (single-site behaviour-preserving rewrites that were reported as violations at first) -----------
T(["C02", "C05"], TAD, "StochasticGame.solve", "        if self.prune_states:\n            logging.info(\"Prunning states with no reachability ...\")\n            solver.prune_stochastich_game()\n        else:\n            logging.info(\"Not prunning states.\")",
  "        if not self.prune_states:\n            logging.info(\"Not prunning states.\")\n        else:\n            logging.info(\"Prunning states with no reachability ...\")\n            solver.prune_stochastich_game()", "if/else of the pruning step exchanged with a negated test")
T(["C06", "C05"], TAD, "PlayerTwo.get_worst_strategies_total_rewards", "if len(self.next_states) == 0:", "if 0 == len(self.next_states):", "flipped emptiness comparison")
T(["C06", "C02", "C14"], TAD, "PlayerTwo.value_iteration_rewards", "        if not self.next_states:\n            return 0, 0, 0", "        nothing_left = not self.next_states\n        if nothing_left:\n            return 0, 0, 0", "emptiness test stored in a local first")
T(["C01", "C04", "C06"], TAD, "Solver.value_iteration_reachability", "        if self.state_list[0].reach_probability == 0 and prune_states:\n", "        no_solution = self.state_list[0].reach_probability == 0 and prune_states\n        if no_solution:\n", "no-solution test stored in a local first")
T(["C02", "C03", "C05", "C06", "C10", "C13", "C14"], TAD, "ProbabilisticNode.remove_path", "new_next_states.append((new_state_probability, _next_state[NEXT_STATE_IDX]))", "new_next_states += [(new_state_probability, _next_state[NEXT_STATE_IDX])]", "append written as += [x]")
T(["C01", "C04", "C06", "C07"], RDFS, "reverse_dfs_from", "            if previous_state not in visited_states:\n", "            unseen = previous_state not in visited_states\n            if unseen:\n", "membership test stored in a local first")
T(["C01", "C04", "C06", "C07"], RDFS, "reverse_dfs_from", "                pending_states.append(previous_state)", "                pending_states += [previous_state]", "push written as += [x]")
T(["C01", "C04", "C06", "C07", "C10"], RDFS, "reverse_dfs", "    states_reaching_final = [state for state in visited_states if state not in final_states]\n", "    states_reaching_final = []\n    for state in visited_states:\n        if state not in final_states:\n            states_reaching_final.append(state)\n", "result comprehension written as a loop")
