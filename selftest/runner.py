"""Applies the catalogue (and the seeded patches) to scratch copies of the CURRENT tree and runs the checks on them.

Scratch copies live in a mkdtemp directory outside /repo and /verif and are removed before return.
"""
import ast
import json
import os
import shutil
import subprocess
import sys
import tempfile
from concurrent.futures import ThreadPoolExecutor

from . import catalogue

VERIF = os.path.dirname(os.path.dirname(os.path.abspath(__file__)))
PY = "/venv/bin/python"


def _func_segment(text, qual):
    tree = ast.parse(text)
    parts = qual.split(".")
    body = tree.body
    node = None
    for i, p in enumerate(parts):
        node = None
        for n in body:
            if isinstance(n, (ast.FunctionDef, ast.ClassDef)) and n.name == p:
                node = n
                break
        if node is None:
            return None
        body = node.body
    lines = text.splitlines(keepends=True)
    start = sum(len(l) for l in lines[:node.lineno - 1])
    end = sum(len(l) for l in lines[:node.end_lineno])
    return start, end


def apply_entry(root, e):
    path = os.path.join(root, e["file"])
    text = open(path).read()
    seg = _func_segment(text, e["func"])
    if seg is None:
        return False, "function %s not found" % e["func"]
    a, b = seg
    body = text[a:b]
    if body.count(e["old"]) != 1 and not (e.get("all") and body.count(e["old"]) > 1):
        return False, "anchor text occurs %d times in %s" % (body.count(e["old"]), e["func"])
    new = text[:a] + body.replace(e["old"], e["new"]) + text[b:]
    try:
        ast.parse(new)
    except SyntaxError as ex:
        return False, "edit does not parse: %s" % ex
    open(path, "w").write(new)
    return True, ""


def _copy_tree(repo, dst):
    for name in os.listdir(repo):
        if name.endswith(".py"):
            shutil.copy(os.path.join(repo, name), os.path.join(dst, name))


def _run_check(pid, root):
    p = subprocess.run([PY, os.path.join(VERIF, "check"), pid, "--repo", root, "--quiet"], stdout=subprocess.PIPE, stderr=subprocess.STDOUT, text=True, cwd=VERIF,
                       env=dict(os.environ, VERIF_SELFVAL="1"))
    rules = sorted({l.split()[1] for l in p.stdout.splitlines() if l.startswith("  VIOLATED")})
    return p.returncode, rules


def _one(args):
    e, repo, base = args
    d = tempfile.mkdtemp(prefix="selfval.", dir=base)
    try:
        _copy_tree(repo, d)
        if e["kind"] in ("seed", "twinpatch"):
            p = subprocess.run(["git", "apply", "--unsafe-paths", "--exclude=tests/*", "--exclude=inputs/*", "--exclude=outputs/*", "--exclude=*.md", "--directory=" + d, e["patch"]],
                               cwd="/", stdout=subprocess.PIPE, stderr=subprocess.STDOUT, text=True)
            if p.returncode != 0:
                # patches are relative to the repo root: apply with patch(1) semantics through git in the scratch dir
                q = subprocess.run("cd %s && git init -q . 2>/dev/null; git apply --exclude='tests/*' --exclude='inputs/*' --exclude='outputs/*' --exclude='*.md' %s" % (d, e["patch"]), shell=True,
                                   stdout=subprocess.PIPE, stderr=subprocess.STDOUT, text=True)
                if q.returncode != 0:
                    return dict(e, status="not-applicable", detail=q.stdout[-200:])
        else:
            ok, why = apply_entry(d, e)
            if not ok:
                return dict(e, status="not-applicable", detail=why)
        if e["kind"] in ("twin", "twinpatch"):
            res = {pid: _run_check(pid, d) for pid in e["pids"]}
            # a refactoring recorded as "the analysis gives up here" (exit 2 at install time) may stay undecided; it must never
            # be reported as a violation, and a property that was decided at install time must stay decided
            known = set(e.get("undecided", ()))
            noisy = {pid: r for pid, r in res.items() if r[0] == 1 or (r[0] != 0 and pid not in known)}
            und = sorted(pid for pid, r in res.items() if r[0] == 2 and pid in known)
            if noisy:
                return dict(e, status="NOISY", detail={k: list(v) for k, v in noisy.items()})
            return dict(e, status="silent" if not und else "silent-undecided", detail={"undecided": und})
        code, rules = _run_check(e["pid"], d)
        if e.get("rule") is None:
            return dict(e, status="silent" if code == 0 else "NOISY", detail={"exit": code, "rules": rules})
        fired = code == 1 and any(r.startswith(e["rule"]) or e["rule"].startswith(r.split(":")[0]) for r in rules)
        if not fired and code == 2 and e.get("expect_undecided"):
            # a seeded fault recorded at install time as beyond the analysis (a redesign it does not follow): the check must keep
            # refusing to pass it - exit 2, never exit 0
            return dict(e, status="seed-undecided", detail={"exit": code, "rules": rules})
        return dict(e, status="fired" if fired else ("fired-other-rule" if code == 1 else "MISSED"), detail={"exit": code, "rules": rules})
    finally:
        shutil.rmtree(d, ignore_errors=True)


def entries_for(pid):
    out = []
    for m in catalogue.MUTANTS:
        if pid in (None, m["pid"]):
            out.append(m)
    for t in catalogue.TWINS:
        if pid is None or pid in t["pids"]:
            out.append(dict(t, pids=t["pids"] if pid is None else [pid]))
    sd = os.path.join(VERIF, "seeded")
    if os.path.isdir(sd):
        for name in sorted(os.listdir(sd)):
            meta = os.path.join(sd, name, "meta.json")
            patch = os.path.join(sd, name, "patch.diff")
            if os.path.exists(meta) and os.path.exists(patch):
                mj = json.load(open(meta))
                if pid in (None, mj.get("breaks_property")):
                    own = mj["breaks_property"]
                    out.append(dict(kind="seed", pid=own, patch=patch, rule=own, desc="seeded/%s" % name, file="", func="",
                                    expect_undecided=own in mj.get("undecided_by", ()) and own not in mj.get("detected_by", ())))
    td = os.path.join(VERIF, "twins")
    if os.path.isdir(td):
        for name in sorted(os.listdir(td)):
            patch = os.path.join(td, name, "patch.diff")
            if os.path.exists(patch):
                und = []
                mp = os.path.join(td, name, "meta.json")
                if os.path.exists(mp):
                    und = json.load(open(mp)).get("undecided_at_install", [])
                out.append(dict(kind="twinpatch", pids=[pid] if pid else ["C%02d" % i for i in range(1, 18)], patch=patch, desc="twins/%s" % name, file="", func="",
                                undecided=und))
    return out


def run_entries(entries, repo, jobs=16):
    base = tempfile.mkdtemp(prefix="selfval-root.")
    try:
        with ThreadPoolExecutor(max_workers=jobs) as ex:
            return list(ex.map(_one, [(e, repo, base) for e in entries]))
    finally:
        shutil.rmtree(base, ignore_errors=True)


def run_for_property(pid, ctx, chk, strict=False):
    if os.environ.get("VERIF_SELFVAL"):
        return      # no recursion
    entries = entries_for(pid)
    results = run_entries(entries, ctx.prog.repo)
    summary = {}
    for r in results:
        summary[r["status"]] = summary.get(r["status"], 0) + 1
    chk.extra["self_validation"] = {
        "entries": len(results), "summary": summary,
        "missed": [{"desc": r["desc"], "func": r.get("func"), "detail": r["detail"]} for r in results if r["status"] == "MISSED"],
        "noisy": [{"desc": r["desc"], "func": r.get("func"), "detail": r["detail"]} for r in results if r["status"] == "NOISY"],
        "not_applicable": [{"desc": r["desc"], "detail": r["detail"]} for r in results if r["status"] == "not-applicable"],
        "fired": [{"desc": r["desc"], "rules": r["detail"]["rules"]} for r in results if r["status"] in ("fired", "fired-other-rule")][:40],
    }
    chk.note("self-validation on scratch copies of the current tree: %s" % summary)
    if strict:
        for r in results:
            if r["status"] in ("MISSED", "NOISY"):
                chk.undecided("selfval", r.get("func") or r["desc"], "%s: %s (%s)" % (r["status"], r["desc"], r["detail"]))


def main():
    """python -m selftest.runner [Cxx]  - development view of the catalogue."""
    pid = sys.argv[1] if len(sys.argv) > 1 and sys.argv[1] != "all" else None
    repo = os.environ.get("VERIF_REPO", "/repo")
    results = run_entries(entries_for(pid), repo)
    bad = 0
    for r in results:
        flag = "" if r["status"] in ("fired", "silent", "silent-undecided") else "  <<<<"
        if r["status"] in ("MISSED", "NOISY", "not-applicable", "fired-other-rule"):
            bad += r["status"] in ("MISSED", "NOISY")
        print("%-18s %-4s %-46s %s %s%s" % (r["status"], r.get("pid") or ",".join(r.get("pids", [])), (r.get("func") or "")[:46], r["desc"][:70],
                                           r["detail"] if r["status"] not in ("fired", "silent") else "", flag))
    summary = {}
    for r in results:
        summary[r["status"]] = summary.get(r["status"], 0) + 1
    print(summary)
    sys.exit(1 if bad else 0)


if __name__ == "__main__":
    main()
